#!/usr/bin/env python3
"""Regenerates Appendix D.2 of DESIGN.md (mutant table) from mutants/last_selftest.json and mutants/tests_status.json."""
import json, os, glob, re
V = os.path.dirname(os.path.abspath(__file__))
st = {(r["property"], r["mutant"]): r for r in json.load(open(os.path.join(V, "mutants", "last_selftest.json")))}
try: ts = json.load(open(os.path.join(V, "mutants", "tests_status.json")))
except Exception: ts = {}
lines = []
tot = killed = passing = passing_killed = 0
for d in sorted(glob.glob(os.path.join(V, "mutants", "C*"))):
    pid = os.path.basename(d)
    for p in sorted(glob.glob(os.path.join(d, "*.patch"))):
        name = os.path.basename(p)[:-6]
        body = [l for l in open(p).read().splitlines() if l[:1] in "+-" and not l.startswith(("+++", "---"))]
        files = sorted(set(re.findall(r"^\+\+\+ b/(\S+)", open(p).read(), re.M)))
        r = st.get((pid, name))
        t = ts.get("%s/%s" % (pid, name), "?")
        tot += 1
        k = bool(r and r["status"].startswith("KILLED"))
        killed += k
        if t == "pass":
            passing += 1; passing_killed += k
        lines.append("| %s | `%s` | %s | %s | %s |" % (pid, name, ", ".join(files), "pass" if t == "pass" else ("fails " + t[5:] if t.startswith("fail:") else t),
                                                      ("killed (%ds)" % r["seconds"]) if k else (r["status"].lower() if r else "not run")))
hdr = """### D.2 Hand-written mutants (`/verif/mutants/<id>/*.patch`, `./selftest all`)

%d mutants; %d killed by the quick check of their property (`mutants/last_selftest.json`). "suite" says
whether the repository's own 77 tests still pass with the mutant applied (`./mutant_tests`,
`mutants/tests_status.json`): %d mutants pass the complete suite (these are the realistic "compiles and
passes the tests" changes; %d of them are killed), the others are kept as additional sensitivity probes of
the oracle.

| property | mutant | file | suite | quick check |
|---|---|---|---|---|
""" % (tot, killed, passing, passing_killed)
txt = hdr + "\n".join(lines) + "\n"
path = os.path.join(V, "DESIGN.md")
s = open(path).read()
a = s.find("### D.2 Hand-written mutants")
if a >= 0:
    s = s[:a]
s = s.rstrip("\n") + "\n\n" + txt
open(path, "w").write(s)
print("D.2: %d mutants, %d killed, %d pass the suite (%d killed)" % (tot, killed, passing, passing_killed))
