#!/bin/sh
# Offline setup: pre-compile the repo-independent engine objects (rapidcheck driver) so that the
# first check does not pay the ~25 s rapidcheck compile.  Everything else is built by ./check
# from the current /repo working tree.
set -e
cd "$(dirname "$0")"
chmod +x check
python3 - <<'PY'
import sys, os
sys.path.insert(0, "harness")
import buildlib
b = buildlib.Builder(os.environ.get("VERIF_REPO", "/repo"), "asan")
b.compile_all([b.harness_job("rc_main.cpp")])
print("setup: engine objects ready")
PY
