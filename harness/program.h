// Writer programs (the common generated object), their JSON form, the reference model, the
// executor against the real writer and reader-side observation helpers.  See DESIGN.md 2.3-2.5.
#pragma once
#include <map>
#include <memory>
#include <deque>
#include "jlsx.h"
#include "mjson.h"
#include "vfs.h"
extern "C" {
#include "jls/threaded_writer.h"
#include "jls/copy.h"
}

// ---------------------------------------------------------------------------------------------
// byte payload description (kept small in the case: either literal hex or a generated run)
struct DataDesc {
    bool gen = false;
    std::vector<uint8_t> lit;
    uint64_t seed = 0;
    uint32_t n = 0;
    bool text = false;    // printable, no NUL (for string/json storage types)
    std::vector<uint8_t> bytes() const {
        if (!gen) return lit;
        std::vector<uint8_t> b(n);
        for (uint32_t k = 0; k < n; ++k) {
            uint8_t v = (uint8_t) (mix64(seed, k >> 3) >> ((k & 7) * 8));
            if (text) v = (uint8_t) (0x20 + (v % 0x5f));
            b[k] = v;
        }
        return b;
    }
    mj::Value json() const {
        mj::Value v = mj::Value::object();
        if (gen) { v.set("gen", (long long) (seed >> 1)); v.set("n", (long long) n); v.set("text", text); }
        else v.set("hex", mj::hex(lit.data(), lit.size()));
        return v;
    }
    static DataDesc from(const mj::Value & v) {
        DataDesc d;
        if (v.has("gen")) { d.gen = true; d.seed = (uint64_t) v.at("gen").as_int() << 1; d.n = (uint32_t) v.at("n").as_int(); d.text = v.has("text") && v.at("text").as_bool(); }
        else if (v.has("hex")) d.lit = mj::unhex(v.at("hex").as_str());
        return d;
    }
};

struct OptStr {            // string that may be absent (NULL pointer)
    bool null = false;
    DataDesc d;
    mj::Value json() const { return null ? mj::Value() : d.json(); }
    static OptStr from(const mj::Value * v) { OptStr s; if (!v || v->is_null()) { s.null = true; } else s.d = DataDesc::from(*v); return s; }
    static OptStr of(const std::string & t) { OptStr s; s.d.lit.assign(t.begin(), t.end()); return s; }
    std::string str() const { auto b = d.bytes(); return std::string(b.begin(), b.end()); }
};

struct Op {
    std::string op;   // source | signal | fsr | omit | anno | utc | user | flush
    // source / signal definitions
    int id = 0, src = 0, stype = 0;
    std::string dtype = "f32";
    int q = 0;              // fixed-point exponent field of the data type (bits 16..23); 0 for the plain types
    uint32_t rate = 0, spd = 0, sdf = 0, eps = 0, sumdf = 0, annodf = 0, utcdf = 0;
    OptStr name, units, vendor, model, version, serial;
    // data ops
    int sig = 0;
    int64_t sample_id = 0;
    uint32_t n = 0;
    Pattern pat;
    int64_t poff = 0;       // pattern index of the first sample of this write
    bool junk = false;      // fill the unused bits of the last byte with ones (sub-byte types)
    bool f32api = false;    // use jls_wr_fsr_f32
    int enable = 0;
    int64_t ts = 0;
    float y = 0;
    int atype = 0, group = 0, stor = 1;
    DataDesc data;
    int64_t utc = 0;
    int meta = 0;
    bool nulldata = false;  // user data: pass data = NULL with data_size > 0 (documented rejection: PARAMETER_INVALID, nothing written)
};

struct Program {
    std::string via = "sync";   // sync | twr
    bool close = true;
    std::vector<Op> ops;
};

inline mj::Value op_to_json(const Op & o) {
    mj::Value v = mj::Value::object();
    v.set("op", o.op);
    if (o.op == "source") {
        v.set("id", o.id); v.set("name", o.name.json()); v.set("vendor", o.vendor.json()); v.set("model", o.model.json());
        v.set("version", o.version.json()); v.set("serial", o.serial.json());
    } else if (o.op == "signal") {
        v.set("id", o.id); v.set("src", o.src); v.set("stype", o.stype); v.set("dtype", o.dtype); if (o.q) v.set("q", o.q); v.set("rate", (long long) o.rate);
        v.set("spd", (long long) o.spd); v.set("sdf", (long long) o.sdf); v.set("eps", (long long) o.eps); v.set("sumdf", (long long) o.sumdf);
        v.set("annodf", (long long) o.annodf); v.set("utcdf", (long long) o.utcdf); v.set("name", o.name.json()); v.set("units", o.units.json());
    } else if (o.op == "fsr") {
        v.set("sig", o.sig); v.set("id", (long long) o.sample_id); v.set("n", (long long) o.n);
        mj::Value p = mj::Value::object(); p.set("kind", o.pat.kind); p.set("seed", (long long) (o.pat.seed >> 1)); p.set("p1", (long long) o.pat.p1);
        v.set("pat", p); v.set("poff", (long long) o.poff);
        if (o.junk) v.set("junk", true);
        if (o.f32api) v.set("f32api", true);
    } else if (o.op == "omit") {
        v.set("sig", o.sig); v.set("en", o.enable);
    } else if (o.op == "anno") {
        v.set("sig", o.sig); v.set("ts", (long long) o.ts); v.set("y", mj::Value(strf("%a", (double) o.y)));
        v.set("atype", o.atype); v.set("group", o.group); v.set("stor", o.stor); v.set("data", o.data.json());
    } else if (o.op == "utc") {
        v.set("sig", o.sig); v.set("id", (long long) o.sample_id); v.set("utc", (long long) o.utc);
    } else if (o.op == "user") {
        v.set("meta", o.meta); v.set("stor", o.stor); v.set("data", o.data.json());
        if (o.nulldata) v.set("nulldata", true);
    } else if (o.op == "flush") {
        if (o.sig) v.set("sig", o.sig);   // threaded-writer programs: issued by the application thread that owns this signal
    }
    return v;
}

inline Op op_from_json(const mj::Value & v) {
    Op o;
    o.op = v.at("op").as_str();
    if (o.op == "source") {
        o.id = (int) v.get_int("id", 0);
        o.name = OptStr::from(v.find("name")); o.vendor = OptStr::from(v.find("vendor")); o.model = OptStr::from(v.find("model"));
        o.version = OptStr::from(v.find("version")); o.serial = OptStr::from(v.find("serial"));
    } else if (o.op == "signal") {
        o.id = (int) v.get_int("id", 0); o.src = (int) v.get_int("src", 0); o.stype = (int) v.get_int("stype", 0);
        o.dtype = v.get_str("dtype", "f32"); o.rate = (uint32_t) v.get_int("rate", 0);
        o.spd = (uint32_t) v.get_int("spd", 0); o.sdf = (uint32_t) v.get_int("sdf", 0); o.eps = (uint32_t) v.get_int("eps", 0);
        o.q = (int) v.get_int("q", 0); o.sumdf = (uint32_t) v.get_int("sumdf", 0); o.annodf = (uint32_t) v.get_int("annodf", 0); o.utcdf = (uint32_t) v.get_int("utcdf", 0);
        o.name = OptStr::from(v.find("name")); o.units = OptStr::from(v.find("units"));
    } else if (o.op == "fsr") {
        o.sig = (int) v.get_int("sig", 0); o.sample_id = v.get_int("id", 0); o.n = (uint32_t) v.get_int("n", 0);
        if (v.has("pat")) { const mj::Value & p = v.at("pat"); o.pat.kind = p.get_str("kind", "random"); o.pat.seed = (uint64_t) p.get_int("seed", 0) << 1; o.pat.p1 = p.get_int("p1", 0); }
        o.poff = v.get_int("poff", 0);
        o.junk = v.get_int("junk", 0) != 0;
        o.f32api = v.get_int("f32api", 0) != 0;
    } else if (o.op == "omit") {
        o.sig = (int) v.get_int("sig", 0); o.enable = (int) v.get_int("en", 0);
    } else if (o.op == "anno") {
        o.sig = (int) v.get_int("sig", 0); o.ts = v.get_int("ts", 0);
        if (v.has("y")) o.y = (float) v.at("y").as_dbl();
        o.atype = (int) v.get_int("atype", 0); o.group = (int) v.get_int("group", 0); o.stor = (int) v.get_int("stor", 1);
        if (v.has("data")) o.data = DataDesc::from(v.at("data"));
    } else if (o.op == "utc") {
        o.sig = (int) v.get_int("sig", 0); o.sample_id = v.get_int("id", 0); o.utc = v.get_int("utc", 0);
    } else if (o.op == "user") {
        o.meta = (int) v.get_int("meta", 0); o.stor = (int) v.get_int("stor", 1);
        if (v.has("data")) o.data = DataDesc::from(v.at("data"));
        o.nulldata = v.has("nulldata") && v.at("nulldata").as_bool();
    } else if (o.op == "flush") {
        o.sig = (int) v.get_int("sig", 0);
    }
    return o;
}

inline mj::Value program_to_json(const Program & p) {
    mj::Value v = mj::Value::object();
    v.set("via", p.via); v.set("close", p.close);
    mj::Value ops = mj::Value::array();
    for (auto & o : p.ops) ops.push(op_to_json(o));
    v.set("ops", ops);
    return v;
}

inline Program program_from_json(const mj::Value & v) {
    Program p;
    p.via = v.get_str("via", "sync");
    p.close = !v.has("close") || v.at("close").as_bool();
    for (auto & e : v.at("ops").a) p.ops.push_back(op_from_json(e));
    return p;
}

// ---------------------------------------------------------------------------------------------
// Reference model (written from the API documentation; no notion of blocks/levels/chunks)
struct AnnoM { int64_t ts; float y; int atype, group, stor; std::vector<uint8_t> data; };
struct UtcM { int64_t id, utc; };
struct UserM { int meta, stor; std::vector<uint8_t> data; };

struct SigM {
    Op def;
    const DType * dt = nullptr;
    bool fsr = true;
    bool has_data = false;
    int64_t first_id = 0;
    BitVec samples;
    std::vector<uint8_t> is_gap;       // per sample: 1 if gap fill
    std::vector<AnnoM> annos;
    std::vector<UtcM> utcs;
    int64_t submitted = 0;             // samples handed to accepted write calls (for crash bounds)
    int64_t length() const { return samples.n; }
};

struct Model {
    std::map<int, Op> sources;
    std::map<int, SigM> sigs;
    std::vector<UserM> user;

    // expected verdict of the writer for an op: true = must be accepted (rc 0), false = must be rejected
    // "unknown" cases (implementation-defined) return -1.
    int expect(const Op & o) const {
        if (o.op == "source") {
            if (o.id < 0 || o.id >= 256) return 0;
            if (o.id == 0 || sources.count(o.id)) return 0;   // source 0 is reserved and pre-defined
            return 1;
        }
        if (o.op == "signal") {
            if (o.id < 0 || o.id >= 256 || o.src < 0 || o.src >= 256) return 0;
            if (o.id == 0 || sigs.count(o.id)) return 0;
            if (o.src != 0 && !sources.count(o.src)) return 0;
            if (o.stype != 0 && o.stype != 1) return 0;
            if (!dtype_by_name(o.dtype)) return 0;
            if (o.stype == 0 && o.rate == 0) return 0;
            return -1;  // parameters may still be rejected (C16)
        }
        if (o.op == "fsr" || o.op == "omit" || o.op == "utc") {
            auto it = sigs.find(o.sig);
            if (o.sig < 0 || o.sig >= 256 || it == sigs.end()) return 0;
            if (!it->second.fsr) return 0;
            return 1;
        }
        if (o.op == "user" && o.nulldata) return 0;
        if (o.op == "anno") {
            if (o.sig == 0) return 1;
            if (o.sig < 0 || o.sig >= 256 || !sigs.count(o.sig)) return 0;
            return 1;
        }
        return 1;
    }

    void apply(const Op & o) {   // call only for ops the writer accepted
        if (o.op == "source") { sources[o.id] = o; }
        else if (o.op == "signal") {
            SigM s; s.def = o; s.dt = dtype_by_name(o.dtype); s.fsr = (o.stype == 0);
            s.samples = BitVec(s.dt ? s.dt->bits : 8);
            sigs[o.id] = s;
        }
        else if (o.op == "fsr") {
            auto it = sigs.find(o.sig);
            if (it == sigs.end() || !it->second.dt || o.n == 0) return;
            SigM & s = it->second;
            s.submitted += o.n;
            int64_t start_k = 0;
            if (!s.has_data) { s.has_data = true; s.first_id = o.sample_id; }
            else {
                int64_t next = s.first_id + s.samples.n;
                if (o.sample_id > next) {
                    uint64_t fill = s.dt->kind == 'f' ? float_bits(*s.dt, NAN) : 0;
                    for (int64_t k = next; k < o.sample_id; ++k) { s.samples.push(fill); s.is_gap.push_back(1); }
                } else if (o.sample_id < next) {
                    start_k = next - o.sample_id;   // keep-first: skip the overlap
                }
            }
            for (int64_t k = start_k; k < (int64_t) o.n; ++k) { s.samples.push(pattern_sample(o.pat, *s.dt, o.poff + k)); s.is_gap.push_back(0); }
        }
        else if (o.op == "anno") {
            AnnoM a{o.ts, o.y, o.atype, o.group, o.stor, o.data.bytes()};
            if (o.stor == JLS_STORAGE_TYPE_STRING || o.stor == JLS_STORAGE_TYPE_JSON) a.data.push_back(0);  // reader returns the terminator
            if (o.sig == 0) anno0.push_back(a); else sigs[o.sig].annos.push_back(a);
        }
        else if (o.op == "utc") { sigs[o.sig].utcs.push_back(UtcM{o.sample_id, o.utc}); }
        else if (o.op == "user") {
            UserM u{o.meta & 0x0fff, o.stor, o.data.bytes()};
            if (o.stor == JLS_STORAGE_TYPE_STRING || o.stor == JLS_STORAGE_TYPE_JSON) u.data.push_back(0);
            user.push_back(u);
        }
    }
    std::vector<AnnoM> anno0;   // annotations of the global signal 0
};

// ---------------------------------------------------------------------------------------------
// Executor: runs a program against the real writer (sync or threaded)
struct HeapBuf {   // exact-size heap block (ASan red zones on both sides)
    uint8_t * p;
    size_t n;
    explicit HeapBuf(size_t n_) : p((uint8_t *) malloc(n_ ? n_ : 1)), n(n_) {}
    ~HeapBuf() { free(p); }
    HeapBuf(const HeapBuf &) = delete;
};

inline std::unique_ptr<HeapBuf> fsr_bytes(const Op & o, const DType & dt) {
    size_t nbytes = (size_t) (((uint64_t) o.n * (uint64_t) dt.bits + 7) / 8);
    std::unique_ptr<HeapBuf> hb(new HeapBuf(nbytes));
    BitVec bv(dt.bits);
    bv.bytes.reserve(nbytes);
    for (uint32_t k = 0; k < o.n; ++k) bv.push(pattern_sample(o.pat, dt, o.poff + k));
    if (nbytes) memcpy(hb->p, bv.bytes.data(), nbytes);
    int rem = (int) (((uint64_t) o.n * (uint64_t) dt.bits) % 8);
    if (o.junk && rem && nbytes) hb->p[nbytes - 1] |= (uint8_t) (0xff << rem);
    return hb;
}

extern "C" {
#include "jls/log.h"
}
inline void verif_log_cbk(const char * msg) { fputs(msg, stderr); }
inline void verif_log_init() { static bool done = false; if (!done) { done = true; if (getenv("VERIF_JLSLOG")) jls_log_register(verif_log_cbk); } }

struct Writer {   // thin sync/threaded dispatch
    struct jls_wr_s * wr = nullptr;
    struct jls_twr_s * twr = nullptr;
    int32_t open(const std::string & via, const char * path) { verif_log_init(); return via == "twr" ? jls_twr_open(&twr, path) : jls_wr_open(&wr, path); }
    int32_t close() { int32_t rc = twr ? jls_twr_close(twr) : jls_wr_close(wr); twr = nullptr; wr = nullptr; return rc; }
    bool is_open() const { return wr || twr; }
};

struct CStr {   // owns NUL-terminated copies
    std::deque<std::string> keep;
    const char * get(const OptStr & s) { if (s.null) return nullptr; keep.push_back(s.str()); return keep.back().c_str(); }
};

// returns rc of the op
inline int32_t exec_op(Writer & w, const Op & o, const Model & m) {
    CStr cs;
    if (o.op == "source") {
        struct jls_source_def_s d = {};
        d.source_id = (uint16_t) o.id;
        d.name = cs.get(o.name); d.vendor = cs.get(o.vendor); d.model = cs.get(o.model); d.version = cs.get(o.version); d.serial_number = cs.get(o.serial);
        return w.twr ? jls_twr_source_def(w.twr, &d) : jls_wr_source_def(w.wr, &d);
    }
    if (o.op == "signal") {
        struct jls_signal_def_s d = {};
        const DType * dt = dtype_by_name(o.dtype);
        d.signal_id = (uint16_t) o.id; d.source_id = (uint16_t) o.src; d.signal_type = (uint8_t) o.stype;
        d.data_type = dt ? (dt->code | ((uint32_t) (o.q & 0xff) << 16)) : 0; d.sample_rate = o.rate;
        d.samples_per_data = o.spd; d.sample_decimate_factor = o.sdf; d.entries_per_summary = o.eps; d.summary_decimate_factor = o.sumdf;
        d.annotation_decimate_factor = o.annodf; d.utc_decimate_factor = o.utcdf;
        d.name = cs.get(o.name); d.units = cs.get(o.units);
        return w.twr ? jls_twr_signal_def(w.twr, &d) : jls_wr_signal_def(w.wr, &d);
    }
    if (o.op == "fsr") {
        auto it = m.sigs.find(o.sig);
        const DType * dt = (it != m.sigs.end() && it->second.dt) ? it->second.dt : dtype_by_name("u8");
        auto hb = fsr_bytes(o, *dt);
        if (o.f32api) return w.twr ? jls_twr_fsr_f32(w.twr, (uint16_t) o.sig, o.sample_id, (const float *) hb->p, o.n)
                                   : jls_wr_fsr_f32(w.wr, (uint16_t) o.sig, o.sample_id, (const float *) hb->p, o.n);
        return w.twr ? jls_twr_fsr(w.twr, (uint16_t) o.sig, o.sample_id, hb->p, o.n) : jls_wr_fsr(w.wr, (uint16_t) o.sig, o.sample_id, hb->p, o.n);
    }
    if (o.op == "omit") return w.twr ? jls_twr_fsr_omit_data(w.twr, (uint16_t) o.sig, (uint32_t) o.enable) : jls_wr_fsr_omit_data(w.wr, (uint16_t) o.sig, (uint32_t) o.enable);
    if (o.op == "user" && o.nulldata) {
        // the threaded writer copies from the pointer before anybody validates it: NULL is not a "valid pointer" there (C10's
        // precondition), so this misuse is only issued to the synchronous writer, which documents the rejection
        if (w.twr) return JLS_ERROR_PARAMETER_INVALID;
        return jls_wr_user_data(w.wr, (uint16_t) o.meta, (enum jls_storage_type_e) o.stor, nullptr, o.data.n ? o.data.n : 1);
    }
    if (o.op == "anno" || o.op == "user") {
        std::vector<uint8_t> b = o.data.bytes();
        uint32_t sz = (uint32_t) b.size();
        bool str = (o.stor == JLS_STORAGE_TYPE_STRING || o.stor == JLS_STORAGE_TYPE_JSON);
        if (str) b.push_back(0);
        HeapBuf hb(b.size());
        if (!b.empty()) memcpy(hb.p, b.data(), b.size());
        if (o.op == "anno") {
            uint32_t dsz = str ? 0 : sz;   // documented: data_size is 0 / ignored for string and json storage (sync and threaded writer)
            return w.twr ? jls_twr_annotation(w.twr, (uint16_t) o.sig, o.ts, o.y, (enum jls_annotation_type_e) o.atype, (uint8_t) o.group, (enum jls_storage_type_e) o.stor, hb.p, dsz)
                         : jls_wr_annotation(w.wr, (uint16_t) o.sig, o.ts, o.y, (enum jls_annotation_type_e) o.atype, (uint8_t) o.group, (enum jls_storage_type_e) o.stor, hb.p, dsz);
        }
        uint32_t dsz = str ? 0 : sz;
        return w.twr ? jls_twr_user_data(w.twr, (uint16_t) o.meta, (enum jls_storage_type_e) o.stor, b.empty() ? nullptr : hb.p, dsz)
                     : jls_wr_user_data(w.wr, (uint16_t) o.meta, (enum jls_storage_type_e) o.stor, b.empty() ? nullptr : hb.p, dsz);
    }
    if (o.op == "utc") return w.twr ? jls_twr_utc(w.twr, (uint16_t) o.sig, o.sample_id, o.utc) : jls_wr_utc(w.wr, (uint16_t) o.sig, o.sample_id, o.utc);
    if (o.op == "flush") return w.twr ? jls_twr_flush(w.twr) : jls_wr_flush(w.wr);
    return -1;
}

extern "C" void __lsan_ignore_object(const void * p) __attribute__((weak));
inline void verif_abandon_writer(Writer & w) {
    // Close the descriptor in the VFS without letting the writer emit its closing chunks:
    // we simply drop the instance.  All its heap blocks stay reachable from a static list.
    static std::vector<void *> * graveyard = new std::vector<void *>();   // never destroyed: stays reachable
    if (w.wr) { graveyard->push_back(w.wr); if (__lsan_ignore_object) __lsan_ignore_object(w.wr); }
    if (w.twr) { graveyard->push_back(w.twr); if (__lsan_ignore_object) __lsan_ignore_object(w.twr); }
    w.wr = nullptr; w.twr = nullptr;
}

struct ExecResult {
    int32_t open_rc = 0, close_rc = 0;
    std::vector<int32_t> rcs;
    std::string err;   // first unexpected verdict ("" if none)
};

// Runs the program; the model is updated with accepted ops.  If strict, a verdict that contradicts
// Model::expect is recorded in err (the file content is then unspecified).
inline ExecResult run_program(const Program & p, const char * path, Model & m, bool strict = true, void (*after_op)(size_t idx, void * ud) = nullptr, void * ud = nullptr) {
    ExecResult r;
    Writer w;
    r.open_rc = w.open(p.via, path);
    if (r.open_rc) { r.err = strf("open failed: %d %s", r.open_rc, ec_name(r.open_rc)); return r; }
    if (after_op) after_op((size_t) -1, ud);
    for (size_t k = 0; k < p.ops.size(); ++k) {
        const Op & o = p.ops[k];
        int ex = m.expect(o);
        int32_t rc = exec_op(w, o, m);
        r.rcs.push_back(rc);
        if (strict && r.err.empty()) {
            if (ex == 1 && rc != 0) r.err = strf("op %zu (%s) was rejected with %d %s but is valid", k, o.op.c_str(), rc, ec_name(rc));
            if (ex == 0 && rc == 0 && p.via == "sync") r.err = strf("op %zu (%s) was accepted but must be rejected", k, o.op.c_str());
        }
        if (rc == 0 && ex != 0) m.apply(o);
        if (after_op) after_op(k, ud);
    }
    if (p.close) r.close_rc = w.close();
    else {
        // "crash": abandon the writer without closing.  The instance is leaked on purpose (the
        // process that owned it is gone); LeakSanitizer is told so.
        verif_abandon_writer(w);
    }
    return r;
}

// ---------------------------------------------------------------------------------------------
// Reader-side observation helpers
struct Reader {
    struct jls_rd_s * rd = nullptr;
    int32_t open(const char * path) { verif_log_init(); return jls_rd_open(&rd, path); }
    void close() { if (rd) jls_rd_close(rd); rd = nullptr; }
    ~Reader() { close(); }
};

inline size_t rd_buf_size(const DType & dt, int64_t n) {   // the size reader.h documents
    if (dt.bits < 8) return (size_t) (1 + (n * dt.bits) / 8);
    return (size_t) (n * (dt.bits / 8));
}

// reads a window into an exact-size heap buffer; returns rc; out = packed bytes (ceil(n*bits/8))
inline int32_t read_window(struct jls_rd_s * rd, int sig, const DType & dt, int64_t start, int64_t n, std::vector<uint8_t> & out, bool f32api = false) {
    size_t sz = n > 0 ? rd_buf_size(dt, n) : 1;
    HeapBuf hb(sz);
    memset(hb.p, 0xC5, sz);
    int32_t rc = f32api ? jls_rd_fsr_f32(rd, (uint16_t) sig, start, (float *) hb.p, n) : jls_rd_fsr(rd, (uint16_t) sig, start, hb.p, n);
    size_t used = n > 0 ? (size_t) ((n * dt.bits + 7) / 8) : 0;
    out.assign(hb.p, hb.p + used);
    return rc;
}

// compare n samples bit-exactly (ignoring unused bits of the last byte); returns index of first mismatch or -1
inline int64_t compare_window(const DType & dt, const std::vector<uint8_t> & got, const std::vector<uint8_t> & want, int64_t n) {
    if (dt.bits >= 8) {
        size_t bs = (size_t) (dt.bits / 8);
        if (!memcmp(got.data(), want.data(), (size_t) n * bs)) return -1;
        for (int64_t k = 0; k < n; ++k) if (memcmp(got.data() + (size_t) k * bs, want.data() + (size_t) k * bs, bs)) return k;
        return -1;
    }
    for (int64_t k = 0; k < n; ++k) {
        int64_t bit = k * dt.bits;
        uint8_t mask = (uint8_t) ((1u << dt.bits) - 1u);
        uint8_t a = (got[(size_t) (bit / 8)] >> (bit % 8)) & mask, b = (want[(size_t) (bit / 8)] >> (bit % 8)) & mask;
        if (a != b) return k;
    }
    return -1;
}

inline uint64_t window_sample(const DType & dt, const std::vector<uint8_t> & w, int64_t k) {
    int64_t bit = k * dt.bits;
    if (dt.bits >= 8) { uint64_t v = 0; for (int j = 0; j < dt.bits / 8; ++j) v |= (uint64_t) w[(size_t) (bit / 8 + j)] << (8 * j); return v; }
    return (w[(size_t) (bit / 8)] >> (bit % 8)) & ((1u << dt.bits) - 1u);
}

struct AnnoCollect { std::vector<AnnoM> v; int stop_after = -1; int calls = 0; };
inline int32_t anno_cbk(void * ud, const struct jls_annotation_s * a) {
    AnnoCollect * c = (AnnoCollect *) ud;
    ++c->calls;
    AnnoM m{a->timestamp, a->y, a->annotation_type, a->group_id, a->storage_type, std::vector<uint8_t>(a->data, a->data + a->data_size)};
    c->v.push_back(m);
    return (c->stop_after >= 0 && c->calls >= c->stop_after) ? 1 : 0;
}
struct UtcCollect { std::vector<UtcM> v; int stop_after = -1; int calls = 0; };
inline int32_t utc_cbk(void * ud, const struct jls_utc_summary_entry_s * u, uint32_t size) {
    UtcCollect * c = (UtcCollect *) ud;
    ++c->calls;
    for (uint32_t k = 0; k < size; ++k) c->v.push_back(UtcM{u[k].sample_id, u[k].timestamp});
    return (c->stop_after >= 0 && c->calls >= c->stop_after) ? 1 : 0;
}
struct UserCollect { std::vector<UserM> v; int stop_after = -1; int calls = 0; };
inline int32_t user_cbk(void * ud, uint16_t meta, enum jls_storage_type_e st, uint8_t * data, uint32_t size) {
    UserCollect * c = (UserCollect *) ud;
    ++c->calls;
    c->v.push_back(UserM{meta, (int) st, std::vector<uint8_t>(data, data + size)});
    return (c->stop_after >= 0 && c->calls >= c->stop_after) ? 1 : 0;
}

inline bool float_same(float a, float b) { return flt_bits(a) == flt_bits(b) || (std::isnan(a) && std::isnan(b)); }
inline bool anno_equal(const AnnoM & a, const AnnoM & b, int64_t ts_off = 0) {
    return a.ts == b.ts - ts_off && float_same(a.y, b.y) && a.atype == b.atype && a.group == b.group && a.stor == b.stor && a.data == b.data;
}
inline std::string anno_str(const AnnoM & a) {
    return strf("{ts=%lld y=%a type=%d group=%d stor=%d size=%zu data=%s}", (long long) a.ts, (double) a.y, a.atype, a.group, a.stor, a.data.size(),
                mj::hex(a.data.data(), std::min<size_t>(a.data.size(), 16)).c_str());
}
