// Crash-point enumeration shared by C03 and C19 (DESIGN.md 2.7).
#pragma once
#include "gen_common.h"
#include "decoder.h"
#include "dump.h"

struct CrashPoint { size_t k; size_t b; size_t op_len; bool inplace; int started_op; int completed_ops; std::string kind; };

// Runs the program with the log on and API-call markers; returns the log.
struct LoggedRun {
    std::vector<vfs::Op> log;
    Model model;
    ExecResult er;
    size_t n_mut = 0;
};

inline void mark_cb(size_t idx, void *) { vfs::mark((int64_t) idx); }

inline LoggedRun logged_run(const Program & p, const char * path) {
    LoggedRun lr;
    vfs::reset();
    vfs::log_enable(true);
    lr.er = run_program(p, path, lr.model, true, mark_cb, nullptr);
    vfs::log_enable(false);
    lr.log = vfs::log();
    lr.n_mut = vfs::count_mutations(lr.log, path);
    return lr;
}

// All crash points selected by (stride, phase): boundaries k = phase, phase+stride, ...; for each, b = 0 plus byte prefixes of
// operation k+1: every b for writes <= 40 bytes, else {1, len/2, len-1} and the 8-byte multiples next to both ends
// (thorough: every 8-byte multiple).
inline std::vector<CrashPoint> crash_points(const std::vector<vfs::Op> & log, const std::string & path, size_t stride, size_t phase, bool thorough) {
    std::vector<CrashPoint> pts;
    std::vector<int64_t> recent_hdr;   // offsets of the last chunk headers appended (incl. the one whose payload is being written)
    size_t n = 0;
    int marks = -1;       // index of the last completed op marker seen (-1 = open completed is marker (size_t)-1)
    int completed = 0;    // number of program ops completed
    bool open_done = false;
    for (size_t i = 0; i < log.size(); ++i) {
        const vfs::Op & o = log[i];
        if (o.kind == vfs::OP_MARK) { if (o.off == -1) open_done = true; else completed = (int) o.off + 1; marks = (int) o.off; continue; }
        if (o.path != path || (o.kind != vfs::OP_WRITE && o.kind != vfs::OP_TRUNCATE)) continue;
        if (o.kind == vfs::OP_WRITE && o.data.size() == 32 && o.off >= o.size_before) { recent_hdr.push_back(o.off); if (recent_hdr.size() > 3) recent_hdr.erase(recent_hdr.begin()); }
        if (stride && n % stride == phase % stride) {
            CrashPoint cp; cp.k = n; cp.b = 0; cp.op_len = o.data.size();
            cp.inplace = o.kind == vfs::OP_WRITE && o.off + (int64_t) o.data.size() <= o.size_before;
            cp.completed_ops = completed; cp.started_op = open_done ? completed : -1;
            cp.kind = o.kind == vfs::OP_TRUNCATE ? "truncate" : cp.inplace ? (o.data.size() == 32 ? (o.off == 0 ? "file_header" : "link_header") : "head_table") :
                      o.data.size() == 32 ? "header" : o.data.size() <= 11 ? "footer" : "payload";
            pts.push_back(cp);
            if (o.kind == vfs::OP_WRITE && o.data.size() > 1) {
                size_t len = o.data.size();
                std::vector<size_t> bs;
                if (len <= 40) { for (size_t b = 1; b < len; ++b) bs.push_back(b); }
                else {
                    bs = {1, len / 2, len - 1, 8, 16, (len - 1) & ~(size_t) 7, ((len - 1) & ~(size_t) 7) - 8};
                    if (thorough) for (size_t b = 24; b + 8 < len; b += 8) bs.push_back(b);
                    // prefixes that put the end of the image at a distance of about 1 KiB (+ multiples of 1000 bytes) from the start
                    // of one of the last chunks: the reader finds the last valid chunk by scanning backwards in 1 KiB windows, so
                    // these are the positions where a chunk header sits at / next to a window edge
                    // (window edges at multiples of 1024 bytes from the end; the windows overlap by 24 bytes, i.e. advance by 1000)
                    for (int64_t S : recent_hdr) {
                        for (int64_t j = 0; j < 6; ++j) for (int64_t dl = -8; dl <= 8; dl += 8) {
                            int64_t b = S + 1024 + 1000 * j + dl - o.off;
                            if (b > 0 && b < (int64_t) len) bs.push_back((size_t) b);
                        }
                        for (int64_t j = 1; j <= 5; ++j) for (int64_t dl = -8; dl <= 32; dl += 8) {
                            int64_t b = S + 1024 * j + dl - o.off;
                            if (b > 0 && b < (int64_t) len) bs.push_back((size_t) b);
                        }
                    }
                }
                std::sort(bs.begin(), bs.end());
                bs.erase(std::unique(bs.begin(), bs.end()), bs.end());
                for (size_t b : bs) if (b > 0 && b < len) { CrashPoint c2 = cp; c2.b = b; pts.push_back(c2); }
            }
        }
        ++n;
    }
    (void) marks;
    // the end of the log (everything written)
    if (stride && n % stride == phase % stride) { CrashPoint cp; cp.k = n; cp.b = 0; cp.op_len = 0; cp.inplace = false; cp.completed_ops = completed; cp.started_op = completed; cp.kind = "end"; pts.push_back(cp); }
    return pts;
}

// samples submitted to signal `sig` by the first `nops` program ops (accepted ones only)
inline int64_t submitted_by(const Program & p, const std::vector<int32_t> & rcs, int sig, int nops) {
    int64_t first = 0, next = 0; bool have = false;
    for (int k = 0; k < nops && k < (int) p.ops.size(); ++k) {
        const Op & o = p.ops[(size_t) k];
        if (o.op != "fsr" || o.sig != sig || o.n == 0) continue;
        if (k < (int) rcs.size() && rcs[(size_t) k] != 0) continue;
        if (!have) { have = true; first = o.sample_id; next = o.sample_id + o.n; }
        else if (o.sample_id + (int64_t) o.n > next) next = o.sample_id + o.n;
    }
    return have ? next - first : 0;
}
