#define VERIF_VFS_IMPL 1
#include "vfs_shim.h"
#include "vfs.h"
#include <cerrno>
#include <cstdarg>
#include <cstring>
#include <map>
#include <memory>
#include <mutex>

namespace vfs {

struct File { std::vector<uint8_t> data; };
struct Desc { std::shared_ptr<File> f; std::string path; int64_t pos = 0; int flags = 0; bool used = false; };

static std::map<std::string, std::shared_ptr<File>> g_files;
static std::vector<Desc> g_fds;
static std::vector<Op> g_log;
static bool g_log_on = false;
static uint64_t g_io = 0, g_budget = 0, g_mut = 0;
static bool g_exceeded = false;
static uint64_t g_cap = 256ull << 20;
static std::recursive_mutex g_mu;
void (*io_hook)(int kind) = nullptr;
static const int FD_BASE = 1000;
static const char * REAL_PREFIX = "real:";

void reset() {
    std::lock_guard<std::recursive_mutex> l(g_mu);
    g_files.clear();
    g_fds.clear();
    g_log.clear();
    g_log_on = false;
    g_io = 0; g_budget = 0; g_mut = 0; g_exceeded = false;
    g_cap = 256ull << 20;
}
bool exists(const std::string & p) { std::lock_guard<std::recursive_mutex> l(g_mu); return g_files.count(p) != 0; }
void put(const std::string & p, const std::vector<uint8_t> & b) {
    std::lock_guard<std::recursive_mutex> l(g_mu);
    auto f = std::make_shared<File>();
    f->data = b;
    g_files[p] = f;
}
std::vector<uint8_t> get(const std::string & p) {
    std::lock_guard<std::recursive_mutex> l(g_mu);
    auto it = g_files.find(p);
    return it == g_files.end() ? std::vector<uint8_t>() : it->second->data;
}
void remove(const std::string & p) { std::lock_guard<std::recursive_mutex> l(g_mu); g_files.erase(p); }
void log_enable(bool on) { g_log_on = on; }
std::vector<Op> & log() { return g_log; }
void log_clear() { std::lock_guard<std::recursive_mutex> l(g_mu); g_log.clear(); }
void mark(int64_t id, const std::string & label) {
    std::lock_guard<std::recursive_mutex> l(g_mu);
    if (!g_log_on) return;
    Op o; o.kind = OP_MARK; o.off = id; o.path = label;
    g_log.push_back(std::move(o));
}
uint64_t mutations() { return g_mut; }
uint64_t io_calls() { return g_io; }
void io_budget(uint64_t n) { g_budget = n; g_io = 0; g_exceeded = false; }
bool budget_exceeded() { return g_exceeded; }
int open_fds() { int n = 0; for (auto & d : g_fds) if (d.used) ++n; return n; }
uint64_t g_cap_hits = 0;
void size_cap(uint64_t b) { g_cap = b; }
uint64_t cap_hits() { return g_cap_hits; }

static bool tick(int kind) {
    if (io_hook) io_hook(kind);
    ++g_io;
    if (g_budget && g_io > g_budget) { g_exceeded = true; errno = EIO; return false; }
    return true;
}
static Desc * desc(int fd) {
    int k = fd - FD_BASE;
    if (k < 0 || k >= (int) g_fds.size() || !g_fds[(size_t) k].used) return nullptr;
    return &g_fds[(size_t) k];
}

}  // namespace vfs

using namespace vfs;

extern "C" int vfs_open(const char * path, int oflag, ...) {
    mode_t mode = 0;
    if (oflag & O_CREAT) { va_list ap; va_start(ap, oflag); mode = (mode_t) va_arg(ap, int); va_end(ap); }
    if (!strncmp(path, REAL_PREFIX, strlen(REAL_PREFIX))) return ::open(path + strlen(REAL_PREFIX), oflag, mode);
    std::lock_guard<std::recursive_mutex> l(g_mu);
    if (!tick(OP_OPEN)) return -1;
    std::string p(path);
    auto it = g_files.find(p);
    if (it == g_files.end()) {
        if (!(oflag & O_CREAT)) { errno = ENOENT; return -1; }
        g_files[p] = std::make_shared<File>();
        it = g_files.find(p);
    }
    int64_t before = (int64_t) it->second->data.size();
    if ((oflag & O_TRUNC) && (oflag & (O_RDWR | O_WRONLY))) { it->second->data.clear(); }
    Desc d; d.f = it->second; d.path = p; d.pos = 0; d.flags = oflag; d.used = true;
    size_t k = 0;
    for (; k < g_fds.size(); ++k) if (!g_fds[k].used) break;
    if (k == g_fds.size()) g_fds.push_back(d); else g_fds[k] = d;
    if (g_log_on) { Op o; o.kind = OP_OPEN; o.path = p; o.off = oflag; o.size_before = before; g_log.push_back(std::move(o)); }
    return FD_BASE + (int) k;
}

extern "C" int vfs_close(int fd) {
    if (fd < FD_BASE) return ::close(fd);
    std::lock_guard<std::recursive_mutex> l(g_mu);
    Desc * d = desc(fd);
    if (!d) { errno = EBADF; return -1; }
    if (g_log_on) { Op o; o.kind = OP_CLOSE; o.path = d->path; g_log.push_back(std::move(o)); }
    d->used = false; d->f.reset();
    return 0;
}

extern "C" ssize_t vfs_read(int fd, void * buf, size_t count) {
    if (fd < FD_BASE) return ::read(fd, buf, count);
    std::lock_guard<std::recursive_mutex> l(g_mu);
    if (!tick(-1)) return -1;
    Desc * d = desc(fd);
    if (!d) { errno = EBADF; return -1; }
    if ((d->flags & O_ACCMODE) == O_WRONLY) { errno = EBADF; return -1; }
    int64_t sz = (int64_t) d->f->data.size();
    if (d->pos >= sz) return 0;
    size_t n = (size_t) std::min<int64_t>((int64_t) count, sz - d->pos);
    memcpy(buf, d->f->data.data() + d->pos, n);
    d->pos += (int64_t) n;
    return (ssize_t) n;
}

extern "C" ssize_t vfs_write(int fd, const void * buf, size_t count) {
    if (fd < FD_BASE) return ::write(fd, buf, count);
    std::lock_guard<std::recursive_mutex> l(g_mu);
    if (!tick(OP_WRITE)) return -1;
    Desc * d = desc(fd);
    if (!d) { errno = EBADF; return -1; }
    if ((d->flags & O_ACCMODE) == O_RDONLY) { errno = EBADF; return -1; }
    auto & data = d->f->data;
    if ((uint64_t) d->pos + count > g_cap) { ++g_cap_hits; errno = ENOSPC; return -1; }
    int64_t before = (int64_t) data.size();
    if ((size_t) d->pos + count > data.size()) data.resize((size_t) d->pos + count, 0);
    memcpy(data.data() + d->pos, buf, count);
    if (g_log_on) {
        Op o; o.kind = OP_WRITE; o.path = d->path; o.off = d->pos; o.size_before = before;
        o.data.assign((const uint8_t *) buf, (const uint8_t *) buf + count);
        g_log.push_back(std::move(o));
    }
    ++g_mut;
    d->pos += (int64_t) count;
    return (ssize_t) count;
}

extern "C" off_t vfs_lseek(int fd, off_t offset, int whence) {
    if (fd < FD_BASE) return ::lseek(fd, offset, whence);
    std::lock_guard<std::recursive_mutex> l(g_mu);
    if (!tick(-2)) return -1;
    Desc * d = desc(fd);
    if (!d) { errno = EBADF; return -1; }
    int64_t np;
    switch (whence) {
        case SEEK_SET: np = offset; break;
        case SEEK_CUR: np = d->pos + offset; break;
        case SEEK_END: np = (int64_t) d->f->data.size() + offset; break;
        default: errno = EINVAL; return -1;
    }
    if (np < 0) { errno = EINVAL; return -1; }
    d->pos = np;
    return (off_t) np;
}

extern "C" int vfs_ftruncate(int fd, off_t length) {
    if (fd < FD_BASE) return ::ftruncate(fd, length);
    std::lock_guard<std::recursive_mutex> l(g_mu);
    if (!tick(OP_TRUNCATE)) return -1;
    Desc * d = desc(fd);
    if (!d) { errno = EBADF; return -1; }
    if ((d->flags & O_ACCMODE) == O_RDONLY) { errno = EINVAL; return -1; }
    if (length < 0) { errno = EINVAL; return -1; }
    if ((uint64_t) length > g_cap) { errno = EFBIG; return -1; }
    int64_t before = (int64_t) d->f->data.size();
    d->f->data.resize((size_t) length, 0);
    if (g_log_on) { Op o; o.kind = OP_TRUNCATE; o.path = d->path; o.off = length; o.size_before = before; g_log.push_back(std::move(o)); }
    ++g_mut;
    return 0;
}

extern "C" int vfs_fsync(int fd) {
    if (fd < FD_BASE) return ::fsync(fd);
    std::lock_guard<std::recursive_mutex> l(g_mu);
    if (!tick(OP_FSYNC)) return -1;
    Desc * d = desc(fd);
    if (!d) { errno = EBADF; return -1; }
    if (g_log_on) { Op o; o.kind = OP_FSYNC; o.path = d->path; g_log.push_back(std::move(o)); }
    return 0;
}

namespace vfs {
size_t count_mutations(const std::vector<Op> & log, const std::string & path) {
    size_t n = 0;
    for (auto & o : log) if (o.path == path && (o.kind == OP_WRITE || o.kind == OP_TRUNCATE)) ++n;
    return n;
}
std::vector<uint8_t> crash_image(const std::vector<Op> & log, const std::string & path, size_t k, size_t b) {
    std::vector<uint8_t> f;
    size_t n = 0;
    for (auto & o : log) {
        if (o.path != path) continue;
        if (o.kind == OP_OPEN) { if ((o.off & O_TRUNC) && (o.off & (O_RDWR | O_WRONLY))) f.clear(); continue; }
        if (o.kind != OP_WRITE && o.kind != OP_TRUNCATE) continue;
        size_t len = o.data.size();
        if (n == k) {
            if (o.kind == OP_WRITE && b > 0) {
                size_t m = b < len ? b : len;
                if ((size_t) o.off + m > f.size()) f.resize((size_t) o.off + m, 0);
                memcpy(f.data() + o.off, o.data.data(), m);
            }
            break;
        }
        if (o.kind == OP_WRITE) {
            if ((size_t) o.off + len > f.size()) f.resize((size_t) o.off + len, 0);
            if (len) memcpy(f.data() + o.off, o.data.data(), len);
        } else {
            f.resize((size_t) o.off, 0);
        }
        ++n;
    }
    return f;
}
}
