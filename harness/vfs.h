// In-memory VFS under src/backend_posix.c + operation log (see DESIGN.md 2.2).
#pragma once
#include <cstdint>
#include <string>
#include <vector>

namespace vfs {

enum Kind { OP_OPEN = 0, OP_WRITE = 1, OP_TRUNCATE = 2, OP_FSYNC = 3, OP_CLOSE = 4, OP_MARK = 5 };

struct Op {
    int kind;
    std::string path;
    int64_t off = 0;            // write offset / truncate length / open flags / mark id
    std::vector<uint8_t> data;  // write bytes
    int64_t size_before = 0;    // file size before the operation
};

void reset();                                   // drop all files, descriptors, log, counters
bool exists(const std::string & path);
void put(const std::string & path, const std::vector<uint8_t> & bytes);
std::vector<uint8_t> get(const std::string & path);
void remove(const std::string & path);
void log_enable(bool on);
std::vector<Op> & log();
void log_clear();
void mark(int64_t id, const std::string & label = "");  // API-call boundary marker in the log
uint64_t mutations();                           // number of mutating operations so far (write/truncate)
uint64_t io_calls();
void io_budget(uint64_t n);                     // 0 = unlimited; beyond it every call fails with EIO
bool budget_exceeded();
int open_fds();
void size_cap(uint64_t bytes);
uint64_t cap_hits();          // number of writes refused with ENOSPC because of the cap (monotone counter)
// hook called before every backend I/O call (used by the deterministic scheduler)
extern void (*io_hook)(int kind);

}  // namespace vfs

namespace vfs {
// Crash image: the content of `path` after the first k mutating operations (write/truncate, in log
// order, of that path) plus the first b bytes of operation k+1 (if it is a write).
std::vector<uint8_t> crash_image(const std::vector<Op> & log, const std::string & path, size_t k, size_t b);
size_t count_mutations(const std::vector<Op> & log, const std::string & path);
}
