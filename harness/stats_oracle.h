// Statistics reference used by C02/C05/C03: exact statistics of a window of the model's samples
// (long double, two-pass) and the tolerances stated in DESIGN.md (C02).
#pragma once
#include "program.h"

struct WinStats { int64_t n = 0, nfinite = 0; long double mean = 0, var = 0 /* sample variance, n-1 */, pvar = 0 /* population */; double mn = 0, mx = 0, A = 0; bool has_gap = false; };

inline bool summarisable(const DType & dt) { return dt.bits != 24; }   // jls_dt_buffer_to_f64 has no 24-bit conversion
inline bool summary_is_f64(const DType & dt) { return dt.bits >= 32 && !(dt.kind == 'f' && dt.bits == 32); }

inline WinStats model_stats(const SigM & s, int64_t start, int64_t count) {
    WinStats w; w.n = count; w.mn = INFINITY; w.mx = -INFINITY;
    long double sum = 0;
    for (int64_t k = start; k < start + count; ++k) {
        if (s.is_gap[(size_t) k]) w.has_gap = true;
        double v = sample_to_double(*s.dt, s.samples.get(k));
        if (!std::isfinite(v)) continue;
        ++w.nfinite; sum += v;
        if (v < w.mn) w.mn = v;
        if (v > w.mx) w.mx = v;
        if (fabs(v) > w.A) w.A = fabs(v);
    }
    if (!w.nfinite) return w;
    w.mean = sum / w.nfinite;
    long double S = 0;
    for (int64_t k = start; k < start + count; ++k) {
        double v = sample_to_double(*s.dt, s.samples.get(k));
        if (!std::isfinite(v)) continue;
        long double d = v - w.mean; S += d * d;
    }
    w.pvar = S / w.nfinite;
    w.var = w.nfinite > 1 ? S / (w.nfinite - 1) : 0;
    return w;
}

struct StatTol { double mean, std_abs; };
// levels = number of summary levels the answer may have been aggregated through;
// n_terms = the largest number of values summed in one step (sample_decimate_factor / summary_decimate_factor):
// the library sums in double, so besides the rounding of the stored value (f32 or f64) a naive
// summation error of n_terms * 2^-53 * A per level is inherent.
inline StatTol stat_tol(const DType & dt, const WinStats & w, int levels, double n_terms = 1024.0) {
    double u = summary_is_f64(dt) ? ldexp(1.0, -53) : ldexp(1.0, -24);
    double A = w.A + 1e-300;
    double tau = (levels + 2) * (2.0 * u * A + n_terms * ldexp(1.0, -53) * A);
    double sigma = sqrt((double) w.var);
    StatTol t;
    t.mean = tau;
    // Standard deviation.  Every stored mean carries an absolute error <= tau; the between-entry term
    // sum((mean_i - mean)^2) sees deviations of at most R = max - min of the window, so the variance is off by at most
    // 2*R*tau + tau^2, plus the relative rounding of the stored std values (2u per level).  A bound in terms of R (not of
    // A = max|x|) matters for streams with a large offset and a small spread: there a cancelling one-pass variance
    // (E[x^2] - mean^2) is wrong by orders of magnitude although it is "small relative to A".
    double R = (w.nfinite > 0) ? (w.mx - w.mn) : 0.0;
    double dvar = 2.0 * (levels + 2) * 2.0 * u * (double) w.var + 2.0 * R * tau + tau * tau;
    double dstd = sqrt(dvar);
    if (sigma > 0 && dvar / (2.0 * sigma) < dstd) dstd = dvar / (2.0 * sigma);
    t.std_abs = 4.0 * dstd + 1e-9 * sigma + tau;
    return t;
}
