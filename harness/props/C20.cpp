// C20 — statistics accumulators are consistent under add, compute and combine.
// Oracle: long-double two-pass reference + exact k/min/max + bitwise identity/aliasing laws.
#include "../prop_api.h"
#include "../mjson.h"
#include "../common.h"
#include <cfloat>
extern "C" {
#include "jls/statistics.h"
}

const char * prop_id() { return "C20"; }
const char * prop_rule() {
    return "case = (sequence described by pattern/n/seed/exponent/offset or explicit values, f32|f64, split points, "
           "how each part is accumulated (compute|add), combine order, aliasing mode per combine); generated from a "
           "rapidcheck tape; non-trivial = n>=2 and >=2 non-empty parts actually combined; distinct = hash of the case JSON";
}

namespace {

struct Seq {
    std::string pattern;  // explicit | const | alt | uniform | lognormal | offset | ramp
    int64_t n = 0;
    uint64_t seed = 0;
    int exp10 = 0;        // magnitude 10^exp10
    double offset = 0.0;  // for pattern offset: large offset, spread 10^exp10
    int decades = 0;      // lognormal spread
    std::vector<double> values;  // explicit
};

std::vector<double> expand(const Seq & q) {
    std::vector<double> x;
    if (q.pattern == "explicit") return q.values;
    double mag = pow(10.0, q.exp10);
    x.reserve((size_t) q.n);
    for (int64_t k = 0; k < q.n; ++k) {
        uint64_t r = mix64(q.seed, (uint64_t) k);
        double u = (double) (r >> 11) * (1.0 / 9007199254740992.0);
        double v;
        if (q.pattern == "const") v = mag * (1.0 + (double) (q.seed % 7) / 8.0);
        else if (q.pattern == "alt") v = (k & 1) ? mag : -mag * (1.0 + (double) (q.seed % 3));
        else if (q.pattern == "uniform") v = mag * (2.0 * u - 1.0);
        else if (q.pattern == "lognormal") {
            double e = (double) q.decades * (2.0 * u - 1.0);
            v = mag * pow(10.0, e) * ((r & 1) ? 1.0 : -1.0);
        }
        else if (q.pattern == "offset") v = q.offset + mag * (2.0 * u - 1.0);
        else /* ramp */ v = mag * ((double) k - (double) (q.seed % 17));
        x.push_back(v);
    }
    return x;
}

mj::Value seq_json(const Seq & q) {
    mj::Value v = mj::Value::object();
    v.set("pattern", q.pattern);
    if (q.pattern == "explicit") {
        mj::Value a = mj::Value::array();
        for (double d : q.values) a.push(mj::Value(strf("%a", d)));
        v.set("values", a);
    } else {
        v.set("n", (long long) q.n);
        v.set("seed", (long long) q.seed);
        v.set("exp10", q.exp10);
        v.set("offset", mj::Value(strf("%a", q.offset)));
        v.set("decades", q.decades);
    }
    return v;
}

Seq seq_from(const mj::Value & v) {
    Seq q;
    q.pattern = v.at("pattern").as_str();
    if (q.pattern == "explicit") {
        for (auto & e : v.at("values").a) q.values.push_back(strtod(e.as_str().c_str(), nullptr));
        q.n = (int64_t) q.values.size();
    } else {
        q.n = v.at("n").as_int();
        q.seed = (uint64_t) v.at("seed").as_int();
        q.exp10 = (int) v.at("exp10").as_int();
        q.offset = strtod(v.at("offset").as_str().c_str(), nullptr);
        q.decades = (int) v.at("decades").as_int();
    }
    return q;
}

bool same_bits(const jls_statistics_s & a, const jls_statistics_s & b) {
    return a.k == b.k && dbl_bits(a.mean) == dbl_bits(b.mean) && dbl_bits(a.s) == dbl_bits(b.s)
        && dbl_bits(a.min) == dbl_bits(b.min) && dbl_bits(a.max) == dbl_bits(b.max);
}

std::string st_str(const jls_statistics_s & a) {
    return strf("{k=%llu mean=%a s=%a min=%a max=%a}", (unsigned long long) a.k, a.mean, a.s, a.min, a.max);
}

struct Ref { uint64_t k; long double mean, S; double mn, mx, A; };

Ref reference(const std::vector<double> & x, size_t lo, size_t hi) {
    Ref r{hi - lo, 0, 0, DBL_MAX, -DBL_MAX, 0};
    if (hi == lo) return r;
    long double sum = 0;
    for (size_t k = lo; k < hi; ++k) {
        sum += x[k];
        if (x[k] < r.mn) r.mn = x[k];
        if (x[k] > r.mx) r.mx = x[k];
        if (fabs(x[k]) > r.A) r.A = fabs(x[k]);
    }
    r.mean = sum / (long double) (hi - lo);
    long double S = 0, c = 0;
    for (size_t k = lo; k < hi; ++k) { long double d = x[k] - r.mean; S += d * d; c += d; }
    r.S = S - c * c / (long double) (hi - lo);
    if (r.S < 0) r.S = 0;
    return r;
}

void check_against(CaseOutcome & oc, const char * what, const jls_statistics_s & s, const Ref & r, int64_t ops) {
    const double eps = DBL_EPSILON;
    if (s.k != r.k) { oc.fail("count", strf("%s: k=%llu want %llu", what, (unsigned long long) s.k, (unsigned long long) r.k)); return; }
    if (r.k == 0) return;
    if (dbl_bits(s.min) != dbl_bits(r.mn) && !(s.min == r.mn)) { oc.fail("min", strf("%s: min=%a want %a", what, s.min, r.mn)); return; }
    if (dbl_bits(s.max) != dbl_bits(r.mx) && !(s.max == r.mx)) { oc.fail("max", strf("%s: max=%a want %a", what, s.max, r.mx)); return; }
    double n = (double) r.k + (double) ops;
    double tol_mean = 2.0 * (n + 4.0) * eps * r.A;
    if (!(fabsl((long double) s.mean - r.mean) <= tol_mean)) {
        oc.fail("mean", strf("%s: mean=%a ref=%La tol=%g", what, s.mean, r.mean, tol_mean)); return;
    }
    double S = (double) r.S;
    double tol_S = 8.0 * n * eps * (S + r.A * sqrt((double) r.k * S)) + 4.0 * n * n * n * eps * eps * r.A * r.A + 1e-300;
    if (!(fabsl((long double) s.s - r.S) <= tol_S)) {
        oc.fail("variance", strf("%s: s=%a ref=%La tol=%g (k=%llu)", what, s.s, r.S, tol_S, (unsigned long long) r.k)); return;
    }
    if (!(s.s >= 0.0)) { oc.fail("variance_nonneg", strf("%s: s=%a", what, s.s)); return; }
    double v = jls_statistics_var(const_cast<jls_statistics_s *>(&s));
    if (!(v >= 0.0)) { oc.fail("variance_nonneg", strf("%s: var=%a", what, v)); return; }
    double tau = n * eps * r.A;
    if (!(s.mean >= r.mn - tau && s.mean <= r.mx + tau)) { oc.fail("mean_in_range", strf("%s: mean=%a not in [%a,%a]", what, s.mean, r.mn, r.mx)); return; }
}

}  // namespace

std::string prop_generate(Tape & t, int size) {
    mj::Value c = mj::Value::object();
    bool f32 = t.chance(1, 4);
    c.set("f32", f32);
    Seq q;
    static const std::vector<std::string> pats = {"explicit", "uniform", "const", "alt", "lognormal", "offset", "ramp"};
    q.pattern = pats[t.weighted({3, 4, 2, 2, 3, 4, 2})];
    if (q.pattern == "explicit") {
        int n = (int) t.range(0, 8);
        for (int k = 0; k < n; ++k) {
            // small integers, or scaled values
            int64_t m = t.range(-8, 8);
            int e = t.chance(1, 3) ? (int) t.range(-30, 30) : 0;
            q.values.push_back(f32 ? (double) (float) ((double) m * pow(10.0, e)) : (double) m * pow(10.0, e));
        }
        q.n = n;
    } else {
        size_t shape = t.weighted({4, 4, 2});
        int64_t nmax = shape == 0 ? 12 : shape == 1 ? 200 : (100 + (int64_t) size * 99);  // up to 10^4
        q.n = t.range(0, nmax);
        q.seed = t.raw();
        q.exp10 = f32 ? (int) t.range(-15, 15) : (int) t.range(-100, 100);
        q.decades = (int) t.range(0, f32 ? 3 : 10);
        if (q.pattern == "lognormal" && !f32) { if (q.exp10 > 90) q.exp10 = 90; if (q.exp10 < -90) q.exp10 = -90; }
        int oe = (int) t.range(0, f32 ? 6 : 12);
        q.offset = (t.coin() ? 1.0 : -1.0) * pow(10.0, q.exp10 + oe);
        if (f32) q.offset = (double) (float) q.offset;
    }
    c.set("seq", seq_json(q));
    // split points (sorted offsets into [0,n]); empty parts allowed
    mj::Value splits = mj::Value::array();
    int nsplit = (int) t.range(0, 6);
    std::vector<int64_t> sp;
    for (int k = 0; k < nsplit; ++k) sp.push_back(t.range(0, q.n));
    std::sort(sp.begin(), sp.end());
    for (auto s : sp) splits.push((long long) s);
    c.set("splits", splits);
    // per part: 0 = compute, 1 = add one at a time
    mj::Value how = mj::Value::array();
    for (int k = 0; k <= nsplit; ++k) how.push((int) t.below(2));
    c.set("how", how);
    // combine order: at each step combine adjacent pair at index (choice % (parts-1)); alias mode 0 none,1 tgt=a,2 tgt=b
    mj::Value order = mj::Value::array();
    for (int k = 0; k < nsplit; ++k) {
        mj::Value st = mj::Value::array();
        st.push((int) t.below(16));
        st.push((int) t.below(3));
        order.push(st);
    }
    c.set("order", order);
    return mj::dump(c);
}

CaseOutcome prop_execute(const std::string & case_json) {
    CaseOutcome oc;
    mj::Value c = mj::parse(case_json);
    bool f32 = c.at("f32").as_bool();
    Seq q = seq_from(c.at("seq"));
    std::vector<double> x = expand(q);
    std::vector<float> xf;
    if (f32) {
        xf.reserve(x.size());
        for (auto & d : x) { float f = (float) d; if (!std::isfinite(f)) f = 0.0f; xf.push_back(f); d = (double) f; }
    }
    size_t n = x.size();
    oc.tags.push_back(f32 ? "f32" : "f64");
    oc.tags.push_back("pattern:" + q.pattern);
    oc.tags.push_back(n == 0 ? "n=0" : n == 1 ? "n=1" : n <= 16 ? "n<=16" : n <= 256 ? "n<=256" : "n>256");

    // exact-size heap copies so that any over-read is an ASan report
    double * xd = (double *) malloc(n * sizeof(double) + 1);
    float * xs = (float *) malloc(n * sizeof(float) + 1);
    if (n) memcpy(xd, x.data(), n * sizeof(double));
    if (f32 && n) memcpy(xs, xf.data(), n * sizeof(float));

    Ref whole = reference(x, 0, n);

    // (1) whole sequence via compute
    jls_statistics_s sw;
    memset(&sw, 0xa5, sizeof(sw));
    if (f32) jls_statistics_compute_f32(&sw, xs, n); else jls_statistics_compute_f64(&sw, xd, n);
    check_against(oc, "compute(whole)", sw, whole, 0);

    // (2) adding one at a time
    jls_statistics_s sa;
    jls_statistics_reset(&sa);
    for (size_t k = 0; k < n; ++k) jls_statistics_add(&sa, x[k]);
    if (oc.ok) check_against(oc, "add(each)", sa, whole, 0);
    if (oc.ok && n == 0) {
        jls_statistics_s r0; jls_statistics_reset(&r0);
        if (!same_bits(sw, r0)) oc.fail("empty", "compute over 0 samples is not the reset state: " + st_str(sw));
    }

    // (3) parts + combine
    std::vector<int64_t> sp;
    for (auto & e : c.at("splits").a) { int64_t s = e.as_int(); if (s < 0) s = 0; if ((size_t) s > n) s = (int64_t) n; sp.push_back(s); }
    std::sort(sp.begin(), sp.end());
    std::vector<size_t> bounds;
    bounds.push_back(0);
    for (auto s : sp) bounds.push_back((size_t) s);
    bounds.push_back(n);
    struct Part { jls_statistics_s st; size_t lo, hi; };
    std::vector<Part> parts;
    const auto & how = c.at("how").a;
    int nonempty = 0;
    for (size_t p = 0; p + 1 < bounds.size(); ++p) {
        Part pt;
        pt.lo = bounds[p]; pt.hi = bounds[p + 1];
        int h = p < how.size() ? (int) how[p].as_int() : 0;
        if (h == 0) {
            if (f32) jls_statistics_compute_f32(&pt.st, xs + pt.lo, pt.hi - pt.lo);
            else jls_statistics_compute_f64(&pt.st, xd + pt.lo, pt.hi - pt.lo);
        } else {
            jls_statistics_reset(&pt.st);
            for (size_t k = pt.lo; k < pt.hi; ++k) jls_statistics_add(&pt.st, x[k]);
        }
        if (pt.hi > pt.lo) ++nonempty;
        if (oc.ok) check_against(oc, "part", pt.st, reference(x, pt.lo, pt.hi), 0);
        parts.push_back(pt);
    }
    const auto & order = c.at("order").a;
    size_t step = 0;
    int64_t ops = 0;
    int real_combines = 0;
    while (parts.size() > 1 && oc.ok) {
        int choice = 0, alias = 0;
        if (step < order.size()) { choice = (int) order[step].a[0].as_int(); alias = (int) order[step].a[1].as_int(); }
        ++step;
        size_t i = (size_t) choice % (parts.size() - 1);
        Part & A = parts[i];
        Part & B = parts[i + 1];
        bool a_empty = A.hi == A.lo, b_empty = B.hi == B.lo;
        jls_statistics_s plain;
        memset(&plain, 0x5a, sizeof(plain));
        jls_statistics_combine(&plain, &A.st, &B.st);
        jls_statistics_s res = plain;
        if (alias == 1) { jls_statistics_s a2 = A.st; jls_statistics_combine(&a2, &a2, &B.st); res = a2; }
        else if (alias == 2) { jls_statistics_s b2 = B.st; jls_statistics_combine(&b2, &A.st, &b2); res = b2; }
        if (!same_bits(res, plain)) {
            oc.fail("aliasing", strf("alias mode %d: %s vs non-aliased %s", alias, st_str(res).c_str(), st_str(plain).c_str()));
            break;
        }
        if (a_empty && !b_empty && !same_bits(plain, B.st)) { oc.fail("identity", "combine(empty,b) != b: " + st_str(plain) + " vs " + st_str(B.st)); break; }
        if (b_empty && !a_empty && !same_bits(plain, A.st)) { oc.fail("identity", "combine(a,empty) != a: " + st_str(plain) + " vs " + st_str(A.st)); break; }
        if (a_empty && b_empty) {
            jls_statistics_s r0; jls_statistics_reset(&r0);
            if (!same_bits(plain, r0)) { oc.fail("identity", "combine(empty,empty) != reset state: " + st_str(plain)); break; }
        }
        if (!a_empty && !b_empty) ++real_combines;
        ops += 4;
        Part m;
        m.st = res; m.lo = A.lo; m.hi = B.hi;
        check_against(oc, "combine", m.st, reference(x, m.lo, m.hi), ops);
        parts[i] = m;
        parts.erase(parts.begin() + (long) i + 1);
    }
    if (oc.ok && parts.size() == 1) check_against(oc, "combine(all)", parts[0].st, whole, ops);
    oc.nontrivial = (n >= 2 && real_combines >= 1);
    oc.tags.push_back(strf("combines:%d", real_combines > 3 ? 3 : real_combines));
    free(xd);
    free(xs);
    return oc;
}
