// C13 — definitions and user data round-trip; identity rules are enforced.
#include "../gen_common.h"

const char * prop_id() { return "C13"; }
const char * prop_rule() {
    return "case = program of source/signal definitions (valid ids, id 0, ids >= 256, duplicates, undefined sources, invalid types), "
           "user data (sizes 0,1,7,8, around 2^20, up to 3 MiB; tags up to 0xffff; all storage types incl. invalid) and data ops for "
           "defined/undefined/VSR signals, in any order; strings absent/empty/ASCII/UTF-8/long (single strings and sums crossing the "
           "1 MiB string block); oracle = record model + 'rejected ops leave the file bytes unchanged'; non-trivial = >= 1 rejected op "
           "or a string/payload >= 2^20-40 bytes; distinct = case hash";
}

namespace {

OptStr gen_str(Tape & t, int size, bool allow_big) {
    OptStr s;
    switch (t.weighted({5, 2, 2, 4, 2, (uint32_t) (allow_big ? 1 : 0)})) {
        case 0: return OptStr::of("name");
        case 1: return OptStr::of("");
        case 2: s.null = true; return s;
        case 3: s.d.gen = true; s.d.seed = (uint64_t) t.raw() << 1; s.d.n = (uint32_t) t.range(1, 60); s.d.text = true; return s;
        case 4: {   // UTF-8 / arbitrary non-NUL bytes
            int n = (int) t.range(1, 24);
            for (int k = 0; k < n; ++k) { uint8_t b = (uint8_t) t.range(1, 255); s.d.lit.push_back(b); }
            return s;
        }
        default: {  // long: around 255, 65535, 2^20
            static const std::vector<int64_t> L = {255, 256, 65535, 65536, 300000, (1 << 20) - 3, (1 << 20) - 2, (1 << 20) - 1, 1 << 20, (1 << 20) + 1, (1 << 20) + 2};
            s.d.gen = true; s.d.seed = (uint64_t) t.raw() << 1; s.d.text = true;
            int64_t n = L[t.below((uint32_t) L.size())];
            if (size < 30 && n > 65536) n = 65536;
            s.d.n = (uint32_t) n;
            return s;
        }
    }
}

DataDesc gen_payload(Tape & t, int size, bool text) {
    DataDesc d;
    d.text = text;
    switch (t.weighted({4, 4, 2, 1})) {
        case 0: { int n = (int) t.pick(std::vector<int>{0, 1, 7, 8, 9, 3}); if (text && n == 0 && t.coin()) n = 1; for (int k = 0; k < n; ++k) d.lit.push_back(text ? (uint8_t) ('a' + k) : (uint8_t) t.range(0, 255)); return d; }
        case 1: d.gen = true; d.seed = (uint64_t) t.raw() << 1; d.n = (uint32_t) t.range(0, 300); return d;
        case 2: d.gen = true; d.seed = (uint64_t) t.raw() << 1; d.n = (uint32_t) ((1 << 20) + t.range(-40, 40)); if (size < 25) d.n = (uint32_t) t.range(1000, 70000); return d;
        default: d.gen = true; d.seed = (uint64_t) t.raw() << 1; d.n = size >= 50 ? (uint32_t) t.range(1 << 20, 3 << 20) : (uint32_t) t.range(0, 5000); return d;
    }
}

struct Obs {   // what the reader returned
    std::vector<struct jls_source_def_s> sources;
    std::vector<struct jls_signal_def_s> signals;
};

std::string sstr(const char * p) { return p ? std::string(p) : std::string("<NULL>"); }

}  // namespace

std::string prop_generate(Tape & t, int size) {
    Program p;
    int nops = (int) t.range(2, 6 + size / 4);
    std::vector<int> src_ids = {1}, sig_ids;
    int big_budget = size >= 30 ? 3 : 1;
    int64_t str_used = 65;   // bytes of the first string block taken so far (estimate: assumes the definitions are accepted)
    bool edge_used = false;
    for (int k = 0; k < nops; ++k) {
        switch (t.weighted({4, 5, 4, 3, 2})) {
            case 0: {   // source def
                int id;
                switch (t.weighted({6, 2, 1, 1, 1})) {
                    case 0: id = (int) t.range(1, 255); break;
                    case 1: id = src_ids.empty() ? 1 : src_ids[t.below((uint32_t) src_ids.size())]; break;   // likely duplicate
                    case 2: id = 0; break;
                    case 3: id = 256 + (int) t.range(0, 3); break;
                    default: id = 65535; break;
                }
                Op o; o.op = "source"; o.id = id;
                bool big = big_budget > 0 && t.chance(1, 6);
                o.name = gen_str(t, size, big); o.vendor = gen_str(t, size, false); o.model = gen_str(t, size, false);
                o.version = gen_str(t, size, false); o.serial = gen_str(t, size, big);
                if (big) --big_budget;
                if (!edge_used && size >= 20 && t.chance(1, 5)) {
                    // aim the last string of this definition at the end of the 1 MiB string block (writer and reader
                    // both store definition strings back to back; 65 bytes are taken by the reserved source/signal 0)
                    auto len1 = [](const OptStr & x) { return x.null ? (int64_t) 0 : (int64_t) x.str().size() + 1; };
                    int64_t used = str_used + len1(o.name) + len1(o.vendor) + len1(o.model) + len1(o.version);
                    int64_t L = (1 << 20) - 1 - used - 1 + t.range(-2, 2);
                    if (L > 0 && L < (1 << 20) - 1) { o.serial = OptStr(); o.serial.d.gen = true; o.serial.d.seed = (uint64_t) t.raw() << 1; o.serial.d.n = (uint32_t) L; o.serial.d.text = true; edge_used = true; }
                }
                { auto len1 = [](const OptStr & x) { return x.null ? (int64_t) 0 : (int64_t) x.str().size() + 1; };
                  if (id > 0 && id < 256) str_used += len1(o.name) + len1(o.vendor) + len1(o.model) + len1(o.version) + len1(o.serial); }
                p.ops.push_back(o);
                if (id > 0 && id < 256) src_ids.push_back(id);
                break;
            }
            case 1: {   // signal def
                int id;
                switch (t.weighted({6, 2, 1, 1})) {
                    case 0: id = (int) t.range(1, 255); break;
                    case 1: id = sig_ids.empty() ? 1 : sig_ids[t.below((uint32_t) sig_ids.size())]; break;
                    case 2: id = 0; break;
                    default: id = 256 + (int) t.range(0, 2); break;
                }
                int src;
                switch (t.weighted({6, 2, 1, 1})) {
                    case 0: src = src_ids[t.below((uint32_t) src_ids.size())]; break;   // probably defined (id 1 may not be yet)
                    case 1: src = (int) t.range(1, 255); break;                         // probably undefined
                    case 2: src = 0; break;
                    default: src = 256 + (int) t.range(0, 400); break;
                }
                const DType & dt = DTYPES[t.below(N_DTYPES)];
                Op o = gen_signal(t, id, src, dt, (int) t.weighted({4, 3, 2, 2}));
                o.stype = (int) t.weighted({8, 3, 1});          // FSR, VSR, invalid (2)
                if (o.stype == 1) o.rate = t.coin() ? 0 : o.rate;
                if (t.chance(1, 10)) o.rate = 0;
                if (t.chance(1, 12)) o.dtype = "bogus";
                bool big = big_budget > 0 && t.chance(1, 8);
                o.name = gen_str(t, size, big); o.units = gen_str(t, size, false);
                if (big) --big_budget;
                p.ops.push_back(o);
                if (id > 0 && id < 256) sig_ids.push_back(id);
                break;
            }
            case 2: {   // user data
                Op o; o.op = "user";
                o.meta = (int) t.pick(std::vector<int>{0, 1, 0x7ff, 0xfff, 0x1000, 0xffff, 0x1234, 5});
                o.stor = (int) t.weighted({1, 8, 4, 4, 1});   // 0 INVALID (the writer accepts it as an empty marker; the reader must skip it), 1 binary, 2 string, 3 json, 4 invalid
                bool text = (o.stor == 2 || o.stor == 3);
                o.data = gen_payload(t, big_budget > 0 ? size : 10, text);
                if (o.data.gen && o.data.n > 70000) --big_budget;
                if (o.stor == 1 && t.chance(1, 8)) o.nulldata = true;   // NULL data with a non-zero size: rejected, file unchanged
                p.ops.push_back(o);
                break;
            }
            case 3: {   // data op for a (possibly undefined) signal
                Op o;
                int sig = t.chance(2, 3) && !sig_ids.empty() ? sig_ids[t.below((uint32_t) sig_ids.size())] : (int) t.pick(std::vector<int>{7, 200, 255, 256, 300, 65535, 0});
                switch (t.weighted({3, 2, 2, 1})) {
                    case 0: o.op = "fsr"; o.sig = sig; o.sample_id = 0; o.n = (uint32_t) t.range(1, 40); o.pat.kind = "small"; o.pat.seed = t.raw(); break;
                    case 1: o.op = "anno"; o.sig = sig; o.ts = t.range(0, 1000) + k * 1000; o.y = 1.0f; o.atype = (int) t.range(0, 3); o.stor = 2; o.data.lit = {'h', 'i'}; break;
                    case 2: o.op = "utc"; o.sig = sig; o.sample_id = k * 100; o.utc = (int64_t) k * 1000000; break;
                    default: o.op = "omit"; o.sig = sig; o.enable = 1; break;
                }
                p.ops.push_back(o);
                break;
            }
            default: { Op o = gen_source(t, 1); p.ops.push_back(o); break; }   // the usual first source (or a duplicate of it)
        }
    }
    mj::Value c = mj::Value::object();
    c.set("program", program_to_json(p));
    return mj::dump(c);
}

CaseOutcome prop_execute(const std::string & case_json) {
    CaseOutcome oc;
    mj::Value c = mj::parse(case_json);
    Program p = program_from_json(c.at("program"));
    vfs::reset();
    Model m;
    const char * path = "c13.jls";
    Writer w;
    int32_t rc = w.open("sync", path);
    if (rc) { oc.fail("open", strf("jls_wr_open returned %d", rc)); return oc; }
    int rejected = 0; bool big = false;
    // fsr ops to a signal change the model's first_id etc.; keep sample ids contiguous per signal so that C13 stays about identity
    std::map<int, int64_t> next_id;
    for (size_t k = 0; k < p.ops.size() && oc.ok; ++k) {
        Op o = p.ops[k];
        if (o.op == "fsr") { o.sample_id = next_id[o.sig]; o.poff = o.sample_id; }
        int ex = m.expect(o);
        if (o.op == "user" && (o.stor < 1 || o.stor > 3)) ex = (o.stor == 0) ? -1 : 0;   // storage type 0 is "allowed" by the writer (initial chunk), others invalid
        if (o.op == "anno" && (o.stor < 1 || o.stor > 3)) ex = 0;
        auto strbig = [&](const OptStr & s) { return !s.null && s.d.gen && s.d.n >= (1u << 20) - 40; };
        bool has_big_str = strbig(o.name) || strbig(o.units) || strbig(o.vendor) || strbig(o.model) || strbig(o.version) || strbig(o.serial);
        if (has_big_str) { big = true; if (ex == 1) ex = -1; }   // strings beyond the internal block may be rejected (but must not corrupt anything)
        if ((o.op == "user" || o.op == "anno") && o.data.gen && o.data.n >= (1u << 20) - 40) big = true;
        std::vector<uint8_t> before = vfs::get(path);
        rc = exec_op(w, o, m);
        if (ex == 1 && rc != 0) { oc.fail("rejected_valid", strf("op %zu %s was rejected with %d %s but is valid", k, mj::dump(op_to_json(o)).substr(0, 300).c_str(), rc, ec_name(rc))); break; }
        if (ex == 0 && rc == 0) { oc.fail("accepted_invalid", strf("op %zu %s was accepted but must be rejected", k, mj::dump(op_to_json(o)).substr(0, 300).c_str())); break; }
        if (rc != 0) {
            ++rejected;
            oc.tags.push_back("rejected:" + o.op);
            if (vfs::get(path) != before) { oc.fail("rejected_changed_file", strf("op %zu %s returned %d %s but changed the file bytes", k, mj::dump(op_to_json(o)).substr(0, 300).c_str(), rc, ec_name(rc))); break; }
        } else {
            if (o.op == "user" && o.stor == 0) continue;   // storage type INVALID writes an empty marker chunk that the reader does not return
            m.apply(o);
            if (o.op == "fsr") next_id[o.sig] += o.n;
        }
    }
    int32_t crc = w.close();
    if (oc.ok && crc) oc.fail("close", strf("jls_wr_close returned %d", crc));
    if (!oc.ok) { vfs::reset(); return oc; }

    Reader rd;
    rc = rd.open(path);
    if (rc) { oc.fail("open", strf("jls_rd_open returned %d %s", rc, ec_name(rc))); vfs::reset(); return oc; }
    // sources in id order incl. reserved source 0
    struct jls_source_def_s * srcs = nullptr; uint16_t nsrc = 0;
    rc = jls_rd_sources(rd.rd, &srcs, &nsrc);
    if (rc) oc.fail("sources", strf("jls_rd_sources returned %d", rc));
    if (oc.ok) {
        std::vector<int> want_ids = {0};
        for (auto & kv : m.sources) want_ids.push_back(kv.first);
        if (nsrc != want_ids.size()) oc.fail("sources", strf("reader enumerates %u sources, %zu expected (incl. source 0)", nsrc, want_ids.size()));
        for (size_t k = 0; k < want_ids.size() && oc.ok; ++k) {
            if (srcs[k].source_id != want_ids[k]) { oc.fail("sources", strf("source #%zu has id %u, expected %d (id order)", k, srcs[k].source_id, want_ids[k])); break; }
            if (want_ids[k] == 0) {
                if (sstr(srcs[k].name) != "global_annotation_source") oc.fail("sources", "reserved source 0 has name " + sstr(srcs[k].name));
                continue;
            }
            const Op & d = m.sources[want_ids[k]];
            struct { const char * f; const OptStr * w; const char * g; } fs[] = {{"name", &d.name, srcs[k].name}, {"vendor", &d.vendor, srcs[k].vendor}, {"model", &d.model, srcs[k].model},
                                                                                 {"version", &d.version, srcs[k].version}, {"serial_number", &d.serial, srcs[k].serial_number}};
            for (auto & f : fs) {
                std::string want = f.w->null ? std::string() : f.w->str();
                if (!f.g || want != f.g) {
                    oc.fail("source_strings", strf("source %d %s: read back %zu bytes '%s', written %zu bytes '%s'", want_ids[k], f.f, f.g ? strlen(f.g) : 0, sstr(f.g).substr(0, 40).c_str(), want.size(), want.substr(0, 40).c_str()));
                    break;
                }
            }
        }
    }
    // signals
    struct jls_signal_def_s * sigs = nullptr; uint16_t nsig = 0;
    if (oc.ok) { rc = jls_rd_signals(rd.rd, &sigs, &nsig); if (rc) oc.fail("signals", strf("jls_rd_signals returned %d", rc)); }
    if (oc.ok) {
        std::vector<int> want_ids = {0};
        for (auto & kv : m.sigs) want_ids.push_back(kv.first);
        if (nsig != want_ids.size()) oc.fail("signals", strf("reader enumerates %u signals, %zu expected (incl. signal 0)", nsig, want_ids.size()));
        for (size_t k = 0; k < want_ids.size() && oc.ok; ++k) {
            const struct jls_signal_def_s & g = sigs[k];
            if (g.signal_id != want_ids[k]) { oc.fail("signals", strf("signal #%zu has id %u, expected %d (id order)", k, g.signal_id, want_ids[k])); break; }
            if (want_ids[k] == 0) {
                if (g.signal_type != JLS_SIGNAL_TYPE_VSR || sstr(g.name) != "global_annotation_signal") oc.fail("signals", "reserved signal 0 altered: name " + sstr(g.name));
                continue;
            }
            const SigM & s = m.sigs[want_ids[k]];
            const Op & d = s.def;
            struct jls_signal_def_s g2 = {};
            if (jls_rd_signal(rd.rd, (uint16_t) want_ids[k], &g2) || g2.signal_id != g.signal_id || g2.samples_per_data != g.samples_per_data) { oc.fail("signals", strf("jls_rd_signal(%d) disagrees with jls_rd_signals", want_ids[k])); break; }
            uint32_t want_rate = d.stype == 1 ? 0 : d.rate;
            if (g.source_id != d.src || g.signal_type != d.stype || g.data_type != (s.dt->code | ((uint32_t) (d.q & 0xff) << 16)) || g.sample_rate != want_rate) {
                oc.fail("signal_fields", strf("signal %d: source %u type %u data_type 0x%x rate %u; written source %d type %d data_type 0x%x rate %u", want_ids[k], g.source_id, g.signal_type, g.data_type, g.sample_rate, d.src, d.stype, s.dt->code, want_rate));
                break;
            }
            uint32_t want_adf = d.annodf ? std::max<uint32_t>(d.annodf, 10) : 100, want_udf = d.utcdf ? std::max<uint32_t>(d.utcdf, 10) : 100;   // minimum 10, default 100
            if ((g.annotation_decimate_factor != want_adf || g.utc_decimate_factor != want_udf)) {
                oc.fail("signal_fields", strf("signal %d: annotation/utc decimate factors %u/%u, expected %u/%u", want_ids[k], g.annotation_decimate_factor, g.utc_decimate_factor, want_adf, want_udf));
                break;
            }
            if (g.samples_per_data < 10 || g.sample_decimate_factor < 10 || g.samples_per_data % g.sample_decimate_factor) { oc.fail("signal_fields", strf("signal %d: stored spd=%u sdf=%u inconsistent", want_ids[k], g.samples_per_data, g.sample_decimate_factor)); break; }
            struct { const char * f; const OptStr * w; const char * gg; } fs[] = {{"name", &d.name, g.name}, {"units", &d.units, g.units}};
            for (auto & f : fs) {
                std::string want = f.w->null ? std::string() : f.w->str();
                if (!f.gg || want != f.gg) {
                    oc.fail("signal_strings", strf("signal %d %s: read back %zu bytes '%s', written %zu bytes '%s'", want_ids[k], f.f, f.gg ? strlen(f.gg) : 0, sstr(f.gg).substr(0, 40).c_str(), want.size(), want.substr(0, 40).c_str()));
                    break;
                }
            }
        }
    }
    // user data in write order
    if (oc.ok) {
        UserCollect uc;
        rc = jls_rd_user_data(rd.rd, user_cbk, &uc);
        if (rc) oc.fail("user_data", strf("jls_rd_user_data returned %d %s", rc, ec_name(rc)));
        else if (uc.v.size() != m.user.size()) oc.fail("user_data", strf("reader returns %zu user-data items, %zu were written", uc.v.size(), m.user.size()));
        else for (size_t k = 0; k < m.user.size(); ++k) {
            const UserM & a = uc.v[k]; const UserM & b = m.user[k];
            if (a.meta != b.meta || a.stor != b.stor || a.data != b.data) {
                size_t diff = 0; while (diff < a.data.size() && diff < b.data.size() && a.data[diff] == b.data[diff]) ++diff;
                oc.fail("user_data", strf("item %zu: tag 0x%x type %d size %zu; written tag 0x%x type %d size %zu (first differing byte %zu)", k, a.meta, a.stor, a.data.size(), b.meta, b.stor, b.data.size(), diff));
                break;
            }
        }
        if (oc.ok && !m.user.empty()) {   // a callback that asks to stop ends the iteration
            UserCollect u2; u2.stop_after = 1;
            jls_rd_user_data(rd.rd, user_cbk, &u2);
            if (u2.calls != 1) oc.fail("user_data_stop", strf("callback asked to stop after 1 item but was called %d times", u2.calls));
        }
    }
    rd.close();
    oc.nontrivial = rejected > 0 || big;
    if (big) oc.tags.push_back("big_string_or_payload");
    oc.tags.push_back(strf("sources:%zu", m.sources.size() > 3 ? 3 : m.sources.size()));
    oc.tags.push_back(strf("signals:%zu", m.sigs.size() > 3 ? 3 : m.sigs.size()));
    vfs::reset();
    return oc;
}
