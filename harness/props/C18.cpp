// C18 — CRC-32C is computed correctly for every length, alignment and code path.
// Oracle: bit-serial reference (poly 0x82F63B78 reflected, init/xorout 0xFFFFFFFF) == SSE4.2 build
// == table build; hdr variant == general function over 28 bytes; tables regenerate from the polynomial.
#include "../prop_api.h"
#include "../mjson.h"
#include "../common.h"
extern "C" {
#include "jls/crc32c.h"
uint32_t jls_crc32c_sw(uint8_t const * data, uint32_t length);
uint32_t jls_crc32c_hdr_sw(const struct jls_chunk_header_s * hdr);
const uint32_t * verif_crc_table(int k);
}

const char * prop_id() { return "C18"; }
const char * prop_rule() {
    return "generated: (length, start alignment 0..63, content pattern, seed) with lengths biased to word/loop boundaries and up to "
           "16 MiB, plus random 32-byte headers; exhaustive part: every length 0..4096 x every alignment 0..7 x 4 contents, all 8x256 "
           "table words, check value; non-trivial = length >= 9 (head, 8-byte body and tail loops all run) or a header case; "
           "distinct = hash of the case JSON";
}

namespace {

uint32_t crc_ref(const uint8_t * d, size_t n) {
    uint32_t crc = 0xFFFFFFFFu;
    for (size_t k = 0; k < n; ++k) {
        crc ^= d[k];
        for (int b = 0; b < 8; ++b) crc = (crc >> 1) ^ (0x82F63B78u & (0u - (crc & 1u)));
    }
    return crc ^ 0xFFFFFFFFu;
}

// table-driven reference for long buffers (validated against crc_ref in the enumeration)
uint32_t g_t0[256];
bool g_t0_init = false;
uint32_t crc_ref_fast(const uint8_t * d, size_t n) {
    if (!g_t0_init) {
        for (uint32_t i = 0; i < 256; ++i) { uint32_t x = i; for (int j = 0; j < 8; ++j) x = (x >> 1) ^ (0x82F63B78u & (0u - (x & 1u))); g_t0[i] = x; }
        g_t0_init = true;
    }
    uint32_t crc = 0xFFFFFFFFu;
    for (size_t k = 0; k < n; ++k) crc = g_t0[(crc ^ d[k]) & 0xff] ^ (crc >> 8);
    return crc ^ 0xFFFFFFFFu;
}

void fill(uint8_t * p, size_t n, const std::string & content, uint64_t seed) {
    if (content == "zeros") memset(p, 0, n);
    else if (content == "ones") memset(p, 0xff, n);
    else if (content == "onebit") { memset(p, 0, n); if (n) p[seed % n] = (uint8_t) (1u << ((seed >> 32) & 7)); }
    else { for (size_t k = 0; k < n; ++k) p[k] = (uint8_t) (mix64(seed, k >> 3) >> ((k & 7) * 8)); }
}

// returns "" if consistent, else description
std::string check_buf(size_t len, size_t align, const std::string & content, uint64_t seed, bool serial) {
    // exact-size allocation: the data ends at the end of the heap block (ASan red zone right after)
    uint8_t * blk = (uint8_t *) malloc(align + len);
    uint8_t * p = blk + align;
    fill(p, len, content, seed);
    uint32_t want = serial ? crc_ref(p, len) : crc_ref_fast(p, len);
    uint32_t a = jls_crc32c(p, (uint32_t) len);
    uint32_t b = jls_crc32c_sw(p, (uint32_t) len);
    free(blk);
    if (a != want) return strf("jls_crc32c (SSE4.2 build) = 0x%08x, reference 0x%08x (len %zu align %zu %s)", a, want, len, align, content.c_str());
    if (b != want) return strf("jls_crc32c (table build) = 0x%08x, reference 0x%08x (len %zu align %zu %s)", b, want, len, align, content.c_str());
    return "";
}

std::string check_hdr(uint64_t seed) {
    uint8_t * blk = (uint8_t *) aligned_alloc(8, 32);
    for (size_t k = 0; k < 32; ++k) blk[k] = (uint8_t) (mix64(seed, k >> 3) >> ((k & 7) * 8));
    uint32_t want = crc_ref(blk, 28);
    uint32_t a = jls_crc32c_hdr((const struct jls_chunk_header_s *) blk);
    uint32_t b = jls_crc32c_hdr_sw((const struct jls_chunk_header_s *) blk);
    uint32_t c = jls_crc32c(blk, 28);
    uint32_t d = jls_crc32c_sw(blk, 28);
    free(blk);
    if (a != want) return strf("jls_crc32c_hdr (SSE4.2) = 0x%08x, reference over 28 bytes 0x%08x (seed %llu)", a, want, (unsigned long long) seed);
    if (b != want) return strf("jls_crc32c_hdr (table) = 0x%08x, reference over 28 bytes 0x%08x (seed %llu)", b, want, (unsigned long long) seed);
    if (c != want || d != want) return strf("jls_crc32c over 28 bytes = 0x%08x / 0x%08x, reference 0x%08x", c, d, want);
    return "";
}

}  // namespace

std::string prop_generate(Tape & t, int size) {
    mj::Value c = mj::Value::object();
    if (t.chance(1, 5)) {
        c.set("kind", "hdr");
        c.set("seed", (long long) (t.u64() >> 1));
        return mj::dump(c);
    }
    c.set("kind", "buf");
    size_t shape = t.weighted({4, 4, 3, 1});
    int64_t len;
    if (shape == 0) len = t.range(0, 64);
    else if (shape == 1) { int64_t k = t.range(0, 16); len = (1LL << k) + t.range(-9, 9); if (len < 0) len = 0; }
    else if (shape == 2) len = t.range(0, 4096 + (int64_t) size * 600);
    else len = t.range(0, (int64_t) size * 160000);  // up to 16 MiB at full size
    c.set("len", (long long) len);
    c.set("align", (long long) t.range(0, 63));
    static const std::vector<std::string> cs = {"random", "zeros", "ones", "onebit"};
    c.set("content", cs[t.weighted({6, 1, 1, 2})]);
    c.set("seed", (long long) (t.u64() >> 1));
    return mj::dump(c);
}

CaseOutcome prop_execute(const std::string & case_json) {
    CaseOutcome oc;
    mj::Value c = mj::parse(case_json);
    if (c.at("kind").as_str() == "hdr") {
        oc.tags.push_back("hdr");
        oc.nontrivial = true;
        std::string r = check_hdr((uint64_t) c.at("seed").as_int());
        if (!r.empty()) oc.fail("hdr", r);
        return oc;
    }
    if (c.at("kind").as_str() == "table") {
        int k = (int) c.at("table").as_int(); uint32_t i = (uint32_t) c.at("index").as_int() & 0xff;
        uint32_t T[8][256];
        for (uint32_t q = 0; q < 256; ++q) { uint32_t x = q; for (int j = 0; j < 8; ++j) x = (x >> 1) ^ (0x82F63B78u & (0u - (x & 1u))); T[0][q] = x; }
        for (int kk = 1; kk < 8; ++kk) for (uint32_t q = 0; q < 256; ++q) T[kk][q] = T[0][T[kk - 1][q] & 0xff] ^ (T[kk - 1][q] >> 8);
        oc.nontrivial = true;
        if (k < 0 || k > 7) return oc;
        if (verif_crc_table(k)[i] != T[k][i]) oc.fail("table", strf("table %d word %u = 0x%08x, regenerated 0x%08x", k, i, verif_crc_table(k)[i], T[k][i]));
        return oc;
    }
    size_t len = (size_t) c.at("len").as_int();
    size_t align = (size_t) c.at("align").as_int();
    oc.tags.push_back(len <= 64 ? "len<=64" : len <= 4096 ? "len<=4096" : len <= (1 << 20) ? "len<=1MiB" : "len>1MiB");
    oc.tags.push_back(strf("align%%8=%zu", align & 7));
    oc.nontrivial = len >= 9;
    std::string r = check_buf(len, align, c.at("content").as_str(), (uint64_t) c.at("seed").as_int(), len <= 65536);
    if (!r.empty()) oc.fail("crc", r);
    return oc;
}

std::string prop_enumerate(const std::string & tier, const std::string & outdir) {
    mj::Value res = mj::Value::object();
    mj::Value viol = mj::Value::array();
    long long evals = 0, nt = 0;
    auto add_v = [&](const std::string & clause, const std::string & detail, mj::Value cs) {
        if (viol.a.size() >= 5) return;
        mj::Value v = mj::Value::object();
        v.set("clause", clause); v.set("detail", detail); v.set("case", cs);
        viol.push(v);
    };
    // check value
    {
        const char * s = "123456789";
        uint32_t a = jls_crc32c((const uint8_t *) s, 9), b = jls_crc32c_sw((const uint8_t *) s, 9), r = crc_ref((const uint8_t *) s, 9);
        ++evals;
        if (r != 0xE3069283u || a != r || b != r) {
            mj::Value cs = mj::Value::object(); cs.set("kind", "buf"); cs.set("len", 9); cs.set("align", 0); cs.set("content", "random"); cs.set("seed", 0);
            add_v("check_value", strf("CRC-32C(\"123456789\"): sse=0x%08x table=0x%08x ref=0x%08x want 0xE3069283", a, b, r), cs);
        }
    }
    // tables against the generator polynomial
    uint32_t T[8][256];
    for (uint32_t i = 0; i < 256; ++i) { uint32_t x = i; for (int j = 0; j < 8; ++j) x = (x >> 1) ^ (0x82F63B78u & (0u - (x & 1u))); T[0][i] = x; }
    for (int k = 1; k < 8; ++k) for (uint32_t i = 0; i < 256; ++i) T[k][i] = T[0][T[k - 1][i] & 0xff] ^ (T[k - 1][i] >> 8);
    for (int k = 0; k < 8; ++k) {
        const uint32_t * tb = verif_crc_table(k);
        for (uint32_t i = 0; i < 256; ++i) {
            ++evals; ++nt;
            if (tb[i] != T[k][i]) {
                mj::Value cs = mj::Value::object(); cs.set("kind", "table"); cs.set("table", k); cs.set("index", (long long) i);
                add_v("table", strf("table %d word %u = 0x%08x, regenerated 0x%08x", k, i, tb[i], T[k][i]), cs);
            }
        }
    }
    // all lengths x alignments x contents
    static const char * contents[] = {"random", "zeros", "ones", "onebit"};
    size_t maxlen = 4096;
    for (size_t len = 0; len <= maxlen; ++len) {
        for (size_t al = 0; al < 8; ++al) {
            for (int ci = 0; ci < 4; ++ci) {
                uint64_t seed = mix64(len * 8 + al, (uint64_t) ci) >> 1;
                if (ci == 0) {   // crash aid (a memory error inside the CRC code aborts the process): the case being examined
                    mj::Value cs = mj::Value::object(); cs.set("kind", "buf"); cs.set("len", (long long) len); cs.set("align", (long long) al); cs.set("content", contents[ci]); cs.set("seed", (long long) seed);
                    mj::Value doc = mj::Value::object(); doc.set("property", "C18"); doc.set("clause", "crash"); doc.set("case", cs);
                    mj::write_file(outdir + "/current_case.json", mj::dump(doc));
                }
                std::string r = check_buf(len, al, contents[ci], seed, true);
                ++evals;
                if (len >= 9) ++nt;
                if (!r.empty()) {
                    mj::Value cs = mj::Value::object(); cs.set("kind", "buf"); cs.set("len", (long long) len); cs.set("align", (long long) al);
                    cs.set("content", contents[ci]); cs.set("seed", (long long) seed);
                    add_v("crc", r, cs);
                }
            }
        }
    }
    // headers
    long nh = tier == "thorough" ? 2000000 : 200000;
    for (long k = 0; k < nh; ++k) {
        uint64_t seed = mix64(0xC18, (uint64_t) k) >> 1;
        std::string r = check_hdr(seed);
        ++evals; ++nt;
        if (!r.empty()) { mj::Value cs = mj::Value::object(); cs.set("kind", "hdr"); cs.set("seed", (long long) seed); add_v("hdr", r, cs); }
    }
    ::remove((outdir + "/current_case.json").c_str());
    res.set("evaluations", evals);
    res.set("distinct_nontrivial", nt);
    res.set("exhaustive", true);
    res.set("bound", strf("every length 0..%zu x alignment 0..7 x {random,zeros,ones,one-bit}; all 8x256 table words; check value; %ld random headers (sampled)", maxlen, nh));
    res.set("violations", viol);
    mj::Value smp = mj::Value::array();
    { mj::Value cs = mj::Value::object(); cs.set("kind", "buf"); cs.set("len", 4096); cs.set("align", 7); cs.set("content", "onebit"); smp.push(cs); }
    res.set("samples", smp);
    return mj::dump(res);
}
