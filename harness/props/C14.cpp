// C14 — write-once: stored content is never rewritten, only links and head tables.
// History invariant over the complete (offset, bytes) backend write log of every writer program.
#include "../gen_common.h"
#include "../decoder.h"

const char * prop_id() { return "C14"; }
const char * prop_rule() {
    return "case = general writer program (as C05) run through the synchronous or the threaded writer with the VFS write log on; the "
           "invariant is evaluated online over every logged backend operation against a shadow file and its chunk map: a write either "
           "appends at EOF, or rewrites exactly one 32-byte chunk header changing only the link fields and the header CRC, or rewrites "
           "a 128-byte head table (+ footer) where every changed entry goes 0 -> offset of an existing chunk of that track/level, or "
           "is the 32-byte file header; no truncate, size monotone; non-trivial = >= 10 in-place writes of >= 2 kinds; distinct = case hash";
}

namespace {

struct Shadow {
    std::vector<uint8_t> b;
    std::map<uint64_t, uint32_t> chunks;   // offset -> payload_length (complete headers seen so far)
    uint64_t parsed = 32;
    void parse() {
        while (parsed + 32 <= b.size()) {
            const uint8_t * h = &b[parsed];
            if (dec::crc32c(h, 28) != dec::u32(h + 28)) break;   // header not complete yet
            uint32_t plen = dec::u32(h + 20);
            uint64_t total = 32 + dec::disk_size(plen);
            if (parsed + total > b.size()) break;                // body not complete yet
            chunks[parsed] = plen;
            parsed += total;
        }
    }
};

}  // namespace

std::string prop_generate(Tape & t, int size) {
    GenOpts go;
    go.allow_big = size >= 60;
    go.allow_gaps = true;
    go.sample_budget = 30000;
    Program p = gen_general(t, size, go);
    if (t.chance(1, 4)) p.via = "twr";
    mj::Value c = mj::Value::object();
    c.set("program", program_to_json(p));
    return mj::dump(c);
}

CaseOutcome prop_execute(const std::string & case_json) {
    CaseOutcome oc;
    mj::Value c = mj::parse(case_json);
    Program p = program_from_json(c.at("program"));
    vfs::reset();
    Model m;
    const std::string path = "c14.jls";
    vfs::log_enable(true);
    ExecResult er = run_program(p, path.c_str(), m, true);
    vfs::log_enable(false);
    if (!er.err.empty()) { oc.fail("write", er.err); vfs::reset(); return oc; }
    oc.tags.push_back("via:" + p.via);

    Shadow sh;
    int n_hdr = 0, n_head = 0, n_filehdr = 0, n_append = 0;
    size_t opi = 0;
    uint64_t pending_head_chunk = 0;   // a head-table payload rewrite must be followed by its footer
    for (auto & o : vfs::log()) {
        ++opi;
        if (o.path != path) continue;
        if (o.kind == vfs::OP_TRUNCATE) { oc.fail("truncate", strf("backend op %zu: ftruncate(%lld) while writing (size %zu)", opi, (long long) o.off, sh.b.size())); break; }
        if (o.kind != vfs::OP_WRITE) continue;
        uint64_t off = (uint64_t) o.off, len = o.data.size();
        if (len == 0) continue;
        if (off > sh.b.size()) { oc.fail("hole", strf("backend op %zu: write at %llu beyond EOF %zu leaves a hole", opi, (unsigned long long) off, sh.b.size())); break; }
        if (off == sh.b.size()) {   // append
            sh.b.insert(sh.b.end(), o.data.begin(), o.data.end());
            ++n_append;
            continue;
        }
        if (off + len > sh.b.size()) { oc.fail("overwrite_extend", strf("backend op %zu: write [%llu,+%llu) overlaps existing bytes and extends the file (size %zu)", opi, (unsigned long long) off, (unsigned long long) len, sh.b.size())); break; }
        // in-place modification
        sh.parse();
        const uint8_t * oldb = &sh.b[off];
        const uint8_t * newb = o.data.data();
        if (off == 0 && len == 32) {   // file header (at open the header is an append; later only at close)
            ++n_filehdr;
            for (int k = 0; k < 16; ++k) if (oldb[k] != newb[k]) { oc.fail("file_header", strf("backend op %zu: file header identification changed", opi)); break; }
            if (dec::u32(oldb + 24) != dec::u32(newb + 24)) oc.fail("file_header", strf("backend op %zu: file header version changed", opi));
            if (!oc.ok) break;
        } else if (len == 32 && sh.chunks.count(off)) {   // chunk header
            ++n_hdr;
            for (int k = 16; k < 28; ++k) if (oldb[k] != newb[k]) {
                oc.fail("header_rewrite", strf("backend op %zu: in-place rewrite of the chunk header at %llu changes byte %d (tag/meta/payload lengths must stay as first written): 0x%02x -> 0x%02x; old tag 0x%02x",
                                              opi, (unsigned long long) off, k, oldb[k], newb[k], oldb[16]));
                break;
            }
            if (!oc.ok) break;
            if (dec::crc32c(newb, 28) != dec::u32(newb + 28)) { oc.fail("header_rewrite", strf("backend op %zu: rewritten header at %llu has a wrong CRC", opi, (unsigned long long) off)); break; }
        } else if ((len == 128 || len == 136) && off >= 32 && sh.chunks.count(off - 32) && dec::is_track(sh.b[off - 32 + 16]) && dec::track_chunk(sh.b[off - 32 + 16]) == dec::TC_HEAD && sh.chunks[off - 32] == 128) {
            ++n_head;
            const uint8_t * hdr = &sh.b[off - 32];
            int tt = dec::track_type(hdr[16]); int sig = dec::u16(hdr + 18) & 0xff;
            for (int L = 0; L < 16 && oc.ok; ++L) {
                uint64_t a = dec::u64(oldb + 8 * L), b2 = dec::u64(newb + 8 * L);
                if (a == b2) continue;
                if (a != 0) { oc.fail("head_table", strf("backend op %zu: head table of signal %d track %d: entry %d changes from %llu to %llu (may change only once, from 0)", opi, sig, tt, L, (unsigned long long) a, (unsigned long long) b2)); break; }
                auto it = sh.chunks.find(b2);
                if (it == sh.chunks.end()) {
                    // the chunk being recorded is usually appended just before; it must be complete in the shadow
                    oc.fail("head_table", strf("backend op %zu: head table of signal %d track %d: entry %d set to %llu which is not an existing chunk", opi, sig, tt, L, (unsigned long long) b2));
                    break;
                }
                const uint8_t * th = &sh.b[b2];
                int want_tc = L == 0 ? dec::TC_DATA : dec::TC_INDEX;
                if (!(dec::is_track(th[16]) && dec::track_type(th[16]) == tt && dec::track_chunk(th[16]) == want_tc && (dec::u16(th + 18) & 0xff) == sig && (L == 0 || ((dec::u16(th + 18) >> 12) & 0xf) == L))) {
                    oc.fail("head_table", strf("backend op %zu: head table of signal %d track %d: entry %d set to a chunk with tag 0x%02x meta 0x%04x", opi, sig, tt, L, th[16], dec::u16(th + 18)));
                    break;
                }
            }
            if (!oc.ok) break;
            if (len == 136) {   // payload and footer in one write
                if (dec::u32(newb + 132) != dec::crc32c(newb, 128) || dec::u32(newb + 128) != 0) { oc.fail("head_table", strf("backend op %zu: head table footer at %llu does not match the payload", opi, (unsigned long long) off + 128)); break; }
            } else pending_head_chunk = off - 32;
        } else if (pending_head_chunk && off == pending_head_chunk + 32 + 128 && len == 8) {
            // footer (pad + CRC) of the head table just rewritten
            std::vector<uint8_t> pl(sh.b.begin() + (long) pending_head_chunk + 32, sh.b.begin() + (long) pending_head_chunk + 32 + 128);
            if (dec::u32(newb + 4) != dec::crc32c(pl.data(), 128) || dec::u32(newb) != 0) { oc.fail("head_table", strf("backend op %zu: head table footer at %llu does not match the payload", opi, (unsigned long long) off)); break; }
            pending_head_chunk = 0;
        } else {
            // anything else rewrites stored content
            uint64_t coff = 0; uint8_t ctag = 0;
            for (auto it = sh.chunks.begin(); it != sh.chunks.end(); ++it) { if (it->first <= off) { coff = it->first; ctag = sh.b[it->first + 16]; } else break; }
            size_t diff = 0; while (diff < len && oldb[diff] == newb[diff]) ++diff;
            oc.fail("content_rewrite", strf("backend op %zu: %llu bytes rewritten in place at %llu (inside the chunk at %llu, tag 0x%02x), first changed byte +%zu%s", opi, (unsigned long long) len, (unsigned long long) off,
                                           (unsigned long long) coff, ctag, diff, diff == len ? " (identical bytes)" : ""));
            break;
        }
        memcpy(&sh.b[off], newb, len);
    }
    if (oc.ok) {
        // the shadow must equal the file the backend ended up with
        if (sh.b != vfs::get(path)) oc.fail("shadow", "internal: shadow file differs from the VFS file");
    }
    int kinds = (n_hdr > 0) + (n_head > 0) + (n_filehdr > 0);
    oc.nontrivial = (n_hdr + n_head + n_filehdr) >= 10 && kinds >= 2;
    oc.tags.push_back(strf("inplace_kinds:%d", kinds));
    oc.tags.push_back(n_hdr + n_head >= 100 ? "inplace>=100" : n_hdr + n_head >= 10 ? "inplace>=10" : "inplace<10");
    vfs::reset();
    return oc;
}
