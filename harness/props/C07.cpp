// C07 — threaded writer: flush/close semantics hold and nothing deadlocks.
#include <set>
#include "../twr_common.h"

const char * prop_id() { return "C07"; }
const char * prop_rule() {
    return "case = as C06 but with flushes placed throughout the program (and close at the end), one or two application threads, a 1 KiB queue "
           "that is often full when flush/close is issued, schedules with time jumps and I/O latencies of 6 s / 25 s so that the 5 s send and "
           "20 s flush timeouts fire in virtual time; oracle = when jls_twr_flush returns 0 every data call that had returned before the flush "
           "call started has been applied and a backend fsync follows the last of them before the flush returns; when jls_twr_close returns every "
           "accepted call has been applied, the writer thread has finished and the file is a well-formed closed file; the scheduler reports "
           "deadlock (no runnable thread, no sleeper) and no-progress (3e6 steps); non-trivial = flush or close issued while >= 1 accepted message "
           "was still unprocessed; distinct = case hash";
}

std::string prop_generate(Tape & t, int size) {
    TwrCase c = gen_twr_case(t, size, true);
    return mj::dump(twr_case_json(c));
}

namespace {
bool is_data(const Op & o) { return o.op == "fsr" || o.op == "anno" || o.op == "utc" || o.op == "user" || o.op == "omit"; }
std::string kind_of(const Op & o) { return o.op == "fsr" ? "wr_fsr" : o.op == "anno" ? "wr_annotation" : o.op == "utc" ? "wr_utc" : o.op == "user" ? "wr_user_data" : o.op == "omit" ? "wr_omit" : ""; }
}

CaseOutcome prop_execute(const std::string & case_json) {
    CaseOutcome oc;
    TwrCase c = twr_case_from(mj::parse(case_json));
    vfs::reset();
    const char * path = "c07_twr.jls";
    TwrRun r = run_twr_case(c, path);
    if (!r.verdict.empty()) { oc.fail("scheduler", r.verdict); vfs::reset(); return oc; }
    if (r.open_rc) { oc.fail("open", strf("jls_twr_open returned %d", r.open_rc)); vfs::reset(); return oc; }
    // map every accepted data submission to the trace position where the writer thread applied it
    std::map<int, std::vector<size_t>> accepted;   // producer -> indices into r.subs
    for (size_t k = 0; k < r.subs.size(); ++k) { const Op & o = c.prog.ops[r.subs[k].op_index]; if (r.subs[k].rc == 0 && is_data(o)) accepted[r.subs[k].thread].push_back(k); }
    std::map<size_t, size_t> applied_at;           // index into r.subs -> trace position
    std::map<int, size_t> pos;
    for (size_t tp = 0; tp < r.trace.size(); ++tp) {
        const sched::Event & e = r.trace[tp];
        if (!(e.what == "wr_fsr" || e.what == "wr_annotation" || e.what == "wr_utc" || e.what == "wr_user_data" || e.what == "wr_omit")) continue;
        for (auto & kv : accepted) {
            size_t & p = pos[kv.first];
            if (p >= kv.second.size()) continue;
            const Op & o = c.prog.ops[r.subs[kv.second[p]].op_index];
            bool same = kind_of(o) == e.what && ((o.op == "fsr" && e.a == o.sig && e.b == o.sample_id) || (o.op == "anno" && e.a == o.sig && e.b == o.ts) || (o.op == "utc" && e.a == o.sig && e.b == o.sample_id) || (o.op == "user" && e.a == (o.meta & 0xffff)) || (o.op == "omit" && e.a == o.sig));
            if (same) { applied_at[kv.second[p]] = tp; ++p; break; }
        }
    }
    bool pending_at_sync = false;
    int flush_ok = 0, flush_timeout = 0;
    // flush semantics
    for (size_t k = 0; k < r.subs.size() && oc.ok; ++k) {
        const Submission & fs = r.subs[k];
        const Op & o = c.prog.ops[fs.op_index];
        if (o.op != "flush") continue;
        if (fs.rc != 0) { ++flush_timeout; continue; }
        ++flush_ok;
        size_t last_applied = 0; bool any = false;
        for (size_t j = 0; j < r.subs.size(); ++j) {
            const Submission & s = r.subs[j];
            if (!is_data(c.prog.ops[s.op_index]) || s.rc != 0) continue;
            if (s.trace_pos_return > fs.trace_pos_call) continue;   // had not returned when the flush call started
            auto it = applied_at.find(j);
            if (it == applied_at.end() || it->second > fs.trace_pos_return) {
                oc.fail("flush", strf("jls_twr_flush (op %zu) returned 0 at virtual time %lld ms, but op %zu (%s), whose call had returned before the flush started, had not been applied to the file", fs.op_index, (long long) fs.t_return_ms, s.op_index, c.prog.ops[s.op_index].op.c_str()));
                break;
            }
            if (it->second > fs.trace_pos_call) pending_at_sync = true;
            any = true; if (it->second > last_applied) last_applied = it->second;
        }
        if (!oc.ok) break;
        // a backend fsync between the last of those writes and the return of flush
        bool synced = false;
        for (size_t tp = any ? last_applied : fs.trace_pos_call; tp < fs.trace_pos_return && tp < r.trace.size(); ++tp) if (r.trace[tp].what == "fsync") synced = true;
        if (!synced) oc.fail("flush_sync", strf("jls_twr_flush (op %zu) returned 0 but no backend fsync happened after the last write it covers", fs.op_index));
    }
    // close semantics
    if (oc.ok) {
        size_t close_ret = r.trace.size();
        for (size_t tp = 0; tp < r.trace.size(); ++tp) if (r.trace[tp].what == "close_return") close_ret = tp;
        size_t close_call = 0;
        for (size_t tp = 0; tp < r.trace.size(); ++tp) if (r.trace[tp].what == "close_call") close_call = tp;
        for (auto & kv : accepted) for (size_t j : kv.second) {
            auto it = applied_at.find(j);
            if (it == applied_at.end() || it->second > close_ret) { oc.fail("close", strf("jls_twr_close returned but accepted op %zu (%s) was never applied", r.subs[j].op_index, c.prog.ops[r.subs[j].op_index].op.c_str())); break; }
            if (it->second > close_call) pending_at_sync = true;
        }
        for (size_t tp = close_ret + 1; tp < r.trace.size() && oc.ok; ++tp) if (r.trace[tp].thread != 0) oc.fail("close", strf("thread %d was still active (%s) after jls_twr_close returned", r.trace[tp].thread, r.trace[tp].what.c_str()));
        if (oc.ok) {
            std::vector<uint8_t> tb = vfs::get(path);
            dec::File tf = dec::decode(tb);
            if (!tf.violations.empty() || !tf.closed) oc.fail("close_file", strf("after jls_twr_close the file is not a well-formed closed file: %s", tf.violations.empty() ? "no END / header length" : tf.violations[0].c_str()));
        }
    }
    oc.nontrivial = pending_at_sync;
    if (!c.sch.pct.empty()) { oc.tags.push_back("pct_schedule"); if (oc.nontrivial) oc.tags.push_back("pct_schedule_nontrivial"); }
    oc.tags.push_back(strf("flush_ok:%d", flush_ok > 3 ? 3 : flush_ok));
    if (flush_timeout) oc.tags.push_back("flush_timed_out");
    if (r.stats.queue_full_seen) oc.tags.push_back("queue_full");
    if (r.stats.time_jumps) oc.tags.push_back("time_jump");
    if (c.second_sig >= 0) oc.tags.push_back("two_producers");
    {   // two flush calls (from different application threads) in progress at the same time
        bool overlap = false;
        for (size_t i = 0; i < r.subs.size(); ++i) for (size_t j = i + 1; j < r.subs.size(); ++j) {
            const Submission & a = r.subs[i], & b = r.subs[j];
            if (c.prog.ops[a.op_index].op != "flush" || c.prog.ops[b.op_index].op != "flush" || a.thread == b.thread) continue;
            if (a.trace_pos_call < b.trace_pos_return && b.trace_pos_call < a.trace_pos_return) overlap = true;
        }
        if (overlap) oc.tags.push_back("concurrent_flushes");
    }
    for (auto & s : r.subs) if (s.rc == JLS_ERROR_BUSY) { oc.tags.push_back("send_timed_out_or_dropped"); break; }
    oc.counters.push_back({"scheduling_steps", (long) r.stats.steps});
    oc.counters.push_back({"virtual_ms", (long) (r.trace.empty() ? 0 : r.trace.back().now_ms)});
    vfs::reset();
    return oc;
}

// ---- exhaustive part: every schedule with <= K preemptions of a few tiny programs (with flushes) ----
#include "../twr_enum.h"
std::string prop_enumerate(const std::string & tier, const std::string & outdir) { return twr_enum::run(tier, outdir, true); }
