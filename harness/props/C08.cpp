// C08 — the message queue is a faithful bounded FIFO that never leaves its buffer.
// Oracle: deque model + interval invariants; exact-size heap buffer under ASan.
#include "../prop_api.h"
#include "../mjson.h"
#include "../common.h"
#include <deque>
#include <map>
#include <queue>
#include <set>
extern "C" {
#include "jls/msg_ring_buffer.h"
}

const char * prop_id() { return "C08"; }
const char * prop_rule() {
    return "case = (capacity, payload fill mode, sequence of alloc(size)/peek/pop) generated from a rapidcheck tape with sizes "
           "biased to {0,1,cap-12..cap+1} and to what currently fits; exhaustive part: breadth-first search of the complete "
           "reachable state space (library struct + buffer bytes + model queue) for small capacities, every op incl. every size "
           "0..cap+1 from every state; non-trivial = sequence with a wrap-around or a reset-when-empty placement; distinct = case hash";
}

namespace {

struct Msg { uint32_t off; uint32_t size; uint32_t serial; int marker = 0; };  // marker: 0 message, 1 certain wrap marker, 2 possible wrap marker

struct Runner {
    uint32_t cap;
    bool fill_ff;
    uint8_t * buf;
    jls_mrb_s mrb;
    std::deque<Msg> q;
    uint32_t serial = 0;
    uint32_t model_head = 0;   // end of the newest message ever allocated
    bool wrapped = false, reset_path = false;
    std::string err, clause;

    Runner(uint32_t cap_, bool ff) : cap(cap_), fill_ff(ff) {
        buf = (uint8_t *) malloc(cap ? cap : 1);
        jls_mrb_init(&mrb, buf, cap);
    }
    ~Runner() { free(buf); }

    uint8_t pbyte(uint32_t serial_, uint32_t k) const { return fill_ff ? 0xff : (uint8_t) (serial_ * 31u + k * 7u + 1u); }

    void fail(const char * c, const std::string & d) { if (err.empty()) { clause = c; err = d; } }

    // Largest contiguous free region according to the model (bytes).
    // with_markers = true: wrap markers (4-byte control records the implementation leaves at the old
    // head until the consumer passes them) count as occupied -> lower bound used for "must succeed";
    // false: only unpopped messages count -> upper bound used for "must not over-commit".
    uint32_t max_free(int level) const {   // level 0: messages only; 1: + certain markers; 2: + possible markers
        const Msg * oldest = nullptr; const Msg * newest = nullptr;
        for (auto & m : q) { if (m.marker > level) continue; if (!oldest) oldest = &m; newest = &m; }
        if (!oldest) return cap;
        uint32_t T = oldest->off - 4;
        uint32_t H = newest->off + newest->size;
        if (newest->off >= oldest->off) {
            uint32_t a = cap > H ? cap - H : 0, b = T;   // free: [H,cap) and [0,T)
            return a > b ? a : b;
        }
        return T > H ? T - H : 0;                        // wrapped: free [H,T)
    }
    size_t real_count() const { size_t n = 0; for (auto & m : q) if (!m.marker) ++n; return n; }
    void drop_markers() { while (!q.empty() && q.front().marker) q.pop_front(); }

    void alloc(uint32_t size) {
        uint32_t free_lo = std::min(max_free(1), max_free(2)), free_hi = max_free(0);
        bool was_empty = real_count() == 0;
        uint8_t * p = jls_mrb_alloc(&mrb, size);
        if (!p) {
            // may fail only if the message genuinely does not fit contiguously; must succeed with 12 bytes of slack
            if ((uint64_t) size + 12 <= free_lo) {
                fail("alloc_refused", strf("alloc(%u) refused although a contiguous free region of %u bytes exists (cap %u, %zu queued)", size, free_lo, cap, real_count()));
            } else if (was_empty && (uint64_t) size + 8 <= cap) {
                // an empty queue can always reset its pointers: everything that passes the size limit (payload + 4-byte length
                // prefix + 4 bytes for the wrap marker <= capacity) fits, so this is the usable capacity of an emptied queue
                fail("alloc_refused", strf("alloc(%u) refused on an empty queue of capacity %u (usable capacity of an emptied queue is capacity - 8 = %u)", size, cap, cap - 8));
            }
            return;
        }
        int64_t off = p - buf;
        if (off < 4 || (uint64_t) off + size > cap) {
            fail("outside_buffer", strf("alloc(%u) returned region [%lld,%lld) (with 4-byte length prefix) outside the %u-byte buffer", size, (long long) off - 4, (long long) off + size, cap));
            return;  // do not touch the memory
        }
        if ((uint64_t) size + 4 > free_hi) {
            fail("alloc_overcommit", strf("alloc(%u) succeeded although the largest contiguous free region is %u bytes", size, free_hi));
        }
        for (auto & m : q) {
            if (m.marker) continue;
            uint32_t a0 = m.off - 4, a1 = m.off + m.size;
            uint32_t b0 = (uint32_t) off - 4, b1 = (uint32_t) off + size;
            if (b0 < a1 && a0 < b1) {
                fail("overlap", strf("alloc(%u) region [%u,%u) overlaps unpopped message #%u at [%u,%u)", size, b0, b1, m.serial, a0, a1));
                return;
            }
        }
        if ((uint32_t) off - 4 < model_head) {
            // placed below the previous head: the implementation wrapped (marker left at the old head,
            // certain if messages were queued) or reset its pointers on an empty queue
            if (!was_empty) wrapped = true; else reset_path = true;
            if (model_head + 4 <= cap) { Msg mk{model_head + 4, 0, 0, was_empty ? 2 : 1}; q.push_back(mk); }
        }
        Msg m{(uint32_t) off, size, serial++};
        model_head = (uint32_t) off + size;
        for (uint32_t k = 0; k < size; ++k) p[k] = pbyte(m.serial, k);
        q.push_back(m);
        if (mrb.count != real_count()) fail("count", strf("count=%u after alloc, model has %zu", mrb.count, real_count()));
    }

    void check_front(const char * what, uint8_t * p, uint32_t sz) {
        drop_markers();
        if (q.empty()) {
            if (p) fail("fifo", strf("%s returned a message (size %u) from an empty queue", what, sz));
            return;
        }
        const Msg & m = q.front();
        if (!p) { fail("fifo", strf("%s returned NULL but message #%u (size %u) is queued (count=%u)", what, m.serial, m.size, mrb.count)); return; }
        if ((int64_t) (p - buf) != m.off || sz != m.size) {
            fail("fifo", strf("%s returned offset %lld size %u, oldest unpopped message #%u is at offset %u size %u", what, (long long) (p - buf), sz, m.serial, m.off, m.size));
            return;
        }
        for (uint32_t k = 0; k < sz; ++k) {
            if (p[k] != pbyte(m.serial, k)) { fail("bytes", strf("%s: message #%u byte %u = 0x%02x, written 0x%02x", what, m.serial, k, p[k], pbyte(m.serial, k))); return; }
        }
    }

    void peek() {
        uint32_t sz = 0xdeadbeef;
        uint8_t * p = jls_mrb_peek(&mrb, &sz);
        check_front("peek", p, sz);
    }
    void pop() {
        uint32_t sz = 0xdeadbeef;
        uint8_t * p = jls_mrb_pop(&mrb, &sz);
        check_front("pop", p, sz);
        if (!q.empty() && p) q.pop_front();
        else if (!q.empty() && !p) q.pop_front();  // keep the model moving after a reported failure
        if (err.empty() && mrb.count != real_count()) fail("count", strf("count=%u after pop, model has %zu", mrb.count, real_count()));
    }
    void drain_check() {
        // once emptied, any message up to the usable capacity (cap-8) can be allocated again
        while (real_count() && err.empty()) pop();
        if (!err.empty() || cap < 12) return;
        uint32_t s = cap - 8;
        q.clear();   // emptied: a leftover marker must not keep the implementation from re-using the buffer
        alloc(s);
        if (err.empty() && real_count() == 0) fail("usable_capacity", strf("after emptying the queue alloc(%u) = cap-8 was refused", s));
        if (err.empty()) pop();
    }
};

mj::Value op_json(char k, uint32_t size) {
    mj::Value o = mj::Value::array();
    o.push(std::string(1, k));
    if (k == 'a') o.push((long long) size);
    return o;
}

}  // namespace

std::string prop_generate(Tape & t, int size) {
    mj::Value c = mj::Value::object();
    size_t shape = t.weighted({5, 3, 2});
    uint32_t cap = shape == 0 ? (uint32_t) t.range(8, 64) : shape == 1 ? (uint32_t) t.range(64, 512) : (uint32_t) t.range(512, 65536);
    c.set("cap", (long long) cap);
    c.set("fill_ff", t.chance(1, 3));
    int nops = (int) t.range(1, 6 + size * 2);
    mj::Value ops = mj::Value::array();
    int64_t approx_used = 0;
    for (int k = 0; k < nops; ++k) {
        size_t kind = t.weighted({5, 2, 4});
        if (kind == 0) {
            size_t sk = t.weighted({4, 2, 3, 2, 1});
            int64_t s;
            if (sk == 0) s = t.range(0, cap / 4 + 1);
            else if (sk == 1) s = t.range(0, 3);
            else if (sk == 2) s = (int64_t) cap - t.range(0, 16);       // within 16 bytes of the capacity
            else if (sk == 3) s = (int64_t) cap - approx_used - t.range(0, 20);  // around what is left
            else s = t.range(0, (int64_t) cap + 1);
            if (s < 0) s = 0;
            ops.push(op_json('a', (uint32_t) s));
            approx_used += s + 4;
        } else if (kind == 1) {
            ops.push(op_json('k', 0));
        } else {
            ops.push(op_json('p', 0));
            approx_used = approx_used > 0 ? approx_used / 2 : 0;
        }
    }
    c.set("ops", ops);
    return mj::dump(c);
}

CaseOutcome prop_execute(const std::string & case_json) {
    CaseOutcome oc;
    mj::Value c = mj::parse(case_json);
    uint32_t cap = (uint32_t) c.at("cap").as_int();
    Runner r(cap, c.at("fill_ff").as_bool());
    int allocs = 0;
    for (auto & op : c.at("ops").a) {
        const std::string & k = op.a[0].as_str();
        if (k == "a") { r.alloc((uint32_t) op.a[1].as_int()); ++allocs; }
        else if (k == "k") r.peek();
        else r.pop();
        if (!r.err.empty()) break;
    }
    if (r.err.empty()) r.drain_check();
    if (!r.err.empty()) oc.fail(r.clause, r.err);
    oc.nontrivial = r.wrapped || r.reset_path;
    oc.tags.push_back(cap <= 64 ? "cap<=64" : cap <= 512 ? "cap<=512" : "cap>512");
    if (r.wrapped) oc.tags.push_back("wrapped");
    if (r.reset_path) oc.tags.push_back("reset_when_empty");
    return oc;
}

// ---------------------------------------------------------------------------------------------
// Complete BFS of the reachable state space for small capacities.
namespace {
struct State {
    uint32_t head, tail, count;
    std::string bytes;
    std::vector<uint32_t> q;   // (off,size) pairs
    bool operator<(const State & o) const {
        if (head != o.head) return head < o.head;
        if (tail != o.tail) return tail < o.tail;
        if (count != o.count) return count < o.count;
        if (q != o.q) return q < o.q;
        return bytes < o.bytes;
    }
};
}

// An ASan report inside the BFS kills the process: the death callback writes the op path that
// led to the current transition so that the driver has a replay file.
namespace {
std::string g_bfs_out;
uint32_t g_bfs_cap = 0;
int g_bfs_id = -1;
mj::Value g_bfs_op;
std::vector<std::pair<int, mj::Value>> * g_bfs_parent = nullptr;
void bfs_death() {
    if (!g_bfs_parent || g_bfs_id < 0) return;
    std::vector<mj::Value> path;
    path.push_back(g_bfs_op);
    for (int p = g_bfs_id; (*g_bfs_parent)[(size_t) p].first >= 0; p = (*g_bfs_parent)[(size_t) p].first) path.push_back((*g_bfs_parent)[(size_t) p].second);
    mj::Value ops = mj::Value::array();
    for (size_t k = path.size(); k-- > 0;) ops.push(path[k]);
    mj::Value cs = mj::Value::object();
    cs.set("cap", (long long) g_bfs_cap); cs.set("fill_ff", true); cs.set("ops", ops);
    mj::Value doc = mj::Value::object();
    doc.set("property", "C08"); doc.set("clause", "crash"); doc.set("detail", "sanitizer report during state-space enumeration"); doc.set("case", cs);
    mj::write_file(g_bfs_out + "/current_case.json", mj::dump(doc));
}
}
extern "C" void __sanitizer_set_death_callback(void (*cb)(void)) __attribute__((weak));

std::string prop_enumerate(const std::string & tier, const std::string & outdir) {
    g_bfs_out = outdir;
    if (__sanitizer_set_death_callback) __sanitizer_set_death_callback(bfs_death);
    mj::Value res = mj::Value::object();
    mj::Value viol = mj::Value::array();
    mj::Value per_cap = mj::Value::array();
    long long states_total = 0, trans_total = 0, nt = 0;
    uint32_t cap_max = tier == "thorough" ? 28 : 20;
    for (uint32_t cap = 8; cap <= cap_max; ++cap) {
        std::map<State, int> ids;
        std::vector<State> states;
        std::vector<std::pair<int, mj::Value>> parent;  // (parent id, op)
        auto snapshot = [&](Runner & r) {
            State s;
            s.head = r.mrb.head; s.tail = r.mrb.tail; s.count = r.mrb.count;
            s.bytes.assign((const char *) r.buf, cap);
            for (auto & m : r.q) { s.q.push_back(m.off); s.q.push_back(m.marker ? 0xfffffff0u + (uint32_t) m.marker : m.size); }
            s.q.push_back(r.model_head);
            return s;
        };
        auto restore = [&](Runner & r, const State & s) {
            r.mrb.head = s.head; r.mrb.tail = s.tail; r.mrb.count = s.count;
            memcpy(r.buf, s.bytes.data(), cap);
            r.q.clear();
            for (size_t k = 0; k + 2 < s.q.size(); k += 2) {
                int mk = s.q[k + 1] >= 0xfffffff0u ? (int) (s.q[k + 1] - 0xfffffff0u) : 0;
                r.q.push_back(Msg{s.q[k], mk ? 0 : s.q[k + 1], 0, mk});
            }
            r.model_head = s.q.back();
            r.err.clear(); r.clause.clear();
        };
        Runner r(cap, true);
        State s0 = snapshot(r);
        ids[s0] = 0; states.push_back(s0); parent.push_back({-1, mj::Value()});
        std::queue<int> work;
        work.push(0);
        long long trans = 0;
        bool stop = false;
        while (!work.empty() && !stop) {
            int id = work.front(); work.pop();
            for (uint32_t opi = 0; opi < cap + 4 && !stop; ++opi) {
                restore(r, states[(size_t) id]);
                mj::Value op = opi <= cap + 1 ? op_json('a', opi) : opi == cap + 2 ? op_json('k', 0) : op_json('p', 0);
                g_bfs_cap = cap; g_bfs_id = id; g_bfs_op = op; g_bfs_parent = &parent;
                if (opi <= cap + 1) r.alloc(opi);
                else if (opi == cap + 2) r.peek();
                else r.pop();
                ++trans;
                if (r.wrapped || r.reset_path) ++nt;
                r.wrapped = r.reset_path = false;
                if (!r.err.empty()) {
                    // reconstruct the path
                    std::vector<mj::Value> path;
                    path.push_back(op);
                    for (int p = id; parent[(size_t) p].first >= 0; p = parent[(size_t) p].first) path.push_back(parent[(size_t) p].second);
                    mj::Value ops = mj::Value::array();
                    for (size_t k = path.size(); k-- > 0;) ops.push(path[k]);
                    mj::Value cs = mj::Value::object();
                    cs.set("cap", (long long) cap); cs.set("fill_ff", true); cs.set("ops", ops);
                    mj::Value v = mj::Value::object();
                    v.set("clause", r.clause); v.set("detail", r.err); v.set("case", cs);
                    if (viol.a.size() < 4) viol.push(v);
                    // do not expand a failed state; keep exploring the rest of this capacity a little, then stop
                    if (viol.a.size() >= 4) stop = true;
                    continue;
                }
                State ns = snapshot(r);
                auto it = ids.find(ns);
                if (it == ids.end()) {
                    int nid = (int) states.size();
                    ids[ns] = nid; states.push_back(ns); parent.push_back({id, op});
                    work.push(nid);
                }
            }
        }
        states_total += (long long) states.size();
        trans_total += trans;
        mj::Value pc = mj::Value::object();
        pc.set("capacity", (long long) cap); pc.set("states", (long long) states.size()); pc.set("transitions", trans);
        per_cap.push(pc);
        g_bfs_parent = nullptr;
        if (stop) break;
    }
    res.set("evaluations", trans_total);
    res.set("distinct_nontrivial", nt);
    res.set("states", states_total);
    res.set("transitions", trans_total);
    res.set("exhaustive", viol.a.empty());
    res.set("bound", strf("complete reachable state space for capacities 8..%u: from every state every alloc(0..cap+1), peek, pop; payload bytes 0xff", cap_max));
    res.set("per_capacity", per_cap);
    res.set("violations", viol);
    mj::Value smp = mj::Value::array();
    { mj::Value cs = mj::Value::object(); cs.set("cap", 12); cs.set("fill_ff", true); mj::Value ops = mj::Value::array(); ops.push(op_json('a', 0)); ops.push(op_json('p', 0)); ops.push(op_json('a', 4)); cs.set("ops", ops); smp.push(cs); }
    res.set("samples", smp);
    return mj::dump(res);
}
