// C10 — API misuse yields error codes, never crashes, hangs or stray memory access.
// One structure-aware sequence decoder used by both engines (rapidcheck tape / libFuzzer bytes).
#include "../gen_common.h"
#include <set>
extern "C" {
#include "jls/raw.h"
}

const char * prop_id() { return "C10"; }
const char * prop_rule() {
    return "case = sequence of up to ~60 public API calls over one writer (sync or threaded, 64 KiB queue), up to two readers, a raw handle "
           "and jls_copy, on in-memory files: ids 0..65535 (biased to defined ones), enum values 0..255, definition fields from "
           "{0,1,9,10,UINT32_MAX,random}, windows/increments/lengths incl. 0, negative and INT64 extremes; instance pointers are always "
           "live, data pointers valid, caller buffers exactly the documented size (a 1-byte block where the call must be rejected), "
           "everything closed at the end; oracle = no ASan/LSan report, no signal, no I/O-budget overrun, and the return-code predicates "
           "of the property (id >= 256, undefined/wrong-type signal, duplicate definition, window outside [0,length), increment <= 0 -> "
           "error; rejected writer calls leave the file bytes unchanged); non-trivial = >= 1 rejected call and >= 1 successful data call; "
           "distinct = case hash";
}

namespace {

struct Call { std::string f; std::vector<int64_t> a; DataDesc d; OptStr s1, s2; };

mj::Value call_json(const Call & c) {
    mj::Value v = mj::Value::object();
    v.set("f", c.f);
    mj::Value a = mj::Value::array();
    for (auto x : c.a) a.push((long long) x);
    v.set("a", a);
    if (c.d.gen || !c.d.lit.empty()) v.set("d", c.d.json());
    if (!c.s1.null || c.f == "signal" || c.f == "source") { v.set("s1", c.s1.json()); v.set("s2", c.s2.json()); }
    return v;
}
Call call_from(const mj::Value & v) {
    Call c; c.f = v.at("f").as_str();
    for (auto & x : v.at("a").a) c.a.push_back(x.as_int());
    if (v.has("d")) c.d = DataDesc::from(v.at("d"));
    if (v.has("s1")) { c.s1 = OptStr::from(v.find("s1")); c.s2 = OptStr::from(v.find("s2")); }
    return c;
}

int64_t gen_i64(Tape & t) {
    switch (t.weighted({6, 3, 2, 1, 1, 1, 1})) {
        case 0: return t.range(0, 300);
        case 1: return t.range(-10, 5000);
        case 2: return 0;
        case 3: return INT64_MAX - t.range(0, 2);
        case 4: return INT64_MIN + t.range(0, 2);
        case 5: return (1LL << 32) + t.range(-2, 2);
        default: return -(int64_t) t.range(1, 1LL << 40);
    }
}
uint32_t gen_u32field(Tape & t) {
    switch (t.weighted({4, 2, 2, 3, 1, 2})) {
        case 0: return 0;
        case 1: return 1;
        case 2: return (uint32_t) t.pick(std::vector<int64_t>{9, 10, 11, 16});
        case 3: return (uint32_t) t.range(1, 200);
        case 4: return 0xffffffffu - (uint32_t) t.range(0, 3);
        default: return (uint32_t) t.range(0, 100000);
    }
}
int gen_id(Tape & t, const std::vector<int> & defined) {
    if (!defined.empty() && t.chance(4, 5)) return defined[t.below((uint32_t) defined.size())];
    return (int) t.pick(std::vector<int64_t>{0, 1, 2, 7, 255, 256, 257, 1000, 65535, 300});
}

}  // namespace

std::string prop_generate(Tape & t, int size) {
    mj::Value calls = mj::Value::array();
    // Big-block scenario, decided independently of the position in the sequence (the branch that uses it sits late in the sequence, where a short
    // tape is already exhausted and every draw is 0 - measured: 0 of 3000 cases had the scenario when it was drawn in place).
    // The plan is decoded from the LAST 16 tape elements through a tape view of its own, so that the call sequence still decodes from
    // the front exactly as before (the libFuzzer seed corpora stay meaningful) and is never starved by it.
    struct { bool want, used; int id; std::string dtype; int64_t spd, sdf, left; uint64_t seed; int64_t s_start, s_incr, s_cnt; } big;
    Tape tb(t.v + (t.n > 16 ? t.n - 16 : 0), t.n > 16 ? 16 : t.n);
    Tape & t_seq = t;
    { Tape & t = tb;
    big.want = t.chance(2, 5); big.used = false;
    big.id = 200 + (int) t.range(0, 40);
    big.dtype = t.pick(std::vector<std::string>{"u8", "i16", "u4", "f32", "u1", "u32", "i32"});
    big.spd = t.pick(std::vector<int64_t>{65544, 70000, 98304, 131072, 524288});
    big.sdf = t.pick(std::vector<int64_t>{8, 64, 4096});
    if (t.chance(1, 3)) { big.spd = t.pick(std::vector<int64_t>{524288, 1 << 22, 1 << 24}); if (t.chance(1, 2)) big.dtype = "f32"; }   // blocks of 2..64 MiB that are never filled
    big.left = big.spd > 200000 ? t.range(100, 5000) : big.spd + t.range(1, 40000);
    big.seed = t.u64() | 1;
    if (big.spd > 200000) { big.s_start = t.range(0, 20); big.s_incr = t.pick(std::vector<int64_t>{1, 3, 7, 50}); big.s_cnt = 1; }
    else { big.s_start = t.range(0, 50); big.s_incr = t.pick(std::vector<int64_t>{1, 3, 77, 1000, 70000}); big.s_cnt = t.range(1, 3); }
    }
    (void) t_seq;
    std::vector<int> sigs, srcs = {1};
    auto push = [&](const Call & c) { calls.push(call_json(c)); };
    bool twr = t.chance(1, 4);
    { Call c; c.f = twr ? "twr_open" : "wr_open"; c.a = {0}; push(c); }
    int n = (int) t.range(3, 12 + size / 2);
    bool writer_open = true, rd_open[2] = {false, false};
    std::vector<int> sigs_on_disk;   // signals defined in the file a reader on file 0 sees
    bool wrote_samples = false;      // an fsr write for a defined signal was emitted since the writer was (re)opened
    int data_sig = -1;               // a signal known to hold samples in the file a reader on file 0 sees
    bool pending_big_short = false;
    int pending_big = -1;            // a big-block signal was just written: follow the rd_open with level-0 statistics requests
    for (int k = 0; k < n; ++k) {
        Call c;
        // call mix by state: with the writer closed, writer-side calls are no-ops in the executor, so reader / raw / copy calls
        // (and occasionally re-opening the writer) take their place
        size_t kind = writer_open ? t.weighted({4, 5, 8, 2, 3, 2, 2, 1, 2, 10, 1, 2, 1})
                                  : t.weighted({0, 0, 0, 0, 0, 0, 0, 0, 2, 24, 2, 3, 0});
        switch (kind) {
            case 0: { c.f = "source"; int id = t.chance(3, 4) ? (int) t.range(1, 12) : gen_id(t, srcs); c.a = {id}; c.s1 = gen_name(t, "n"); c.s2 = gen_name(t, "v"); if (id > 0 && id < 256) srcs.push_back(id); break; }
            case 1: {
                c.f = "signal";
                int id = t.chance(3, 4) ? (int) t.range(1, 12) : gen_id(t, sigs);
                int src = gen_id(t, srcs);
                const DType & dt = DTYPES[t.below(N_DTYPES)];
                int64_t dtype = t.chance(9, 10) ? (int64_t) dt.code : (int64_t) t.raw();
                if (t.chance(1, 12)) dtype = (int64_t) dt.code | ((int64_t) t.range(1, 255) << 16);   // fixed-point q
                int64_t stype = t.chance(9, 10) ? (int64_t) t.weighted({5, 1}) : t.range(2, 255);
                bool minimal = t.chance(2, 3);
                c.a = {id, src, stype, dtype, t.chance(9, 10) ? t.pick(std::vector<int64_t>{1000, 1, 1000000}) : 0,
                       minimal ? 10 : (int64_t) gen_u32field(t), minimal ? 10 : (int64_t) gen_u32field(t), minimal ? 10 : (int64_t) gen_u32field(t), minimal ? 10 : (int64_t) gen_u32field(t),
                       t.chance(2, 3) ? 0 : (int64_t) gen_u32field(t), t.chance(2, 3) ? 0 : (int64_t) gen_u32field(t)};
                c.s1 = gen_name(t, "s"); c.s2 = gen_name(t, "u");
                if (id > 0 && id < 256) sigs.push_back(id);
                break;
            }
            case 2: { if (!sigs.empty()) wrote_samples = true;
                      c.f = t.chance(1, 8) ? "fsr_f32" : "fsr"; c.a = {gen_id(t, sigs), t.chance(3, 4) ? -1 : gen_i64(t), t.chance(9, 10) ? t.range(0, 400) : t.pick(std::vector<int64_t>{0, 1, 100000, 4294967295LL, 65536}), (int64_t) t.raw()}; break; }
            case 3: { c.f = "omit"; c.a = {gen_id(t, sigs), t.range(0, 2)}; break; }
            case 4: { c.f = "anno"; c.a = {t.chance(1, 5) ? 0 : gen_id(t, sigs), t.chance(3, 4) ? k * 10 : gen_i64(t), t.range(-3, 3), t.chance(9, 10) ? t.range(0, 3) : t.range(0, 255), t.range(0, 255), t.chance(9, 10) ? t.range(1, 3) : t.range(0, 255)};
                      c.d.gen = true; c.d.seed = (uint64_t) t.raw() << 1; c.d.n = (uint32_t) t.range(0, 60); c.d.text = true; break; }
            case 5: { c.f = "utc"; c.a = {gen_id(t, sigs), t.chance(3, 4) ? k * 100 : gen_i64(t), gen_i64(t)}; break; }
            case 6: { c.f = "user"; c.a = {(int64_t) t.pick(std::vector<int64_t>{0, 5, 0xfff, 0x1000, 0xffff}), t.chance(9, 10) ? t.range(1, 3) : t.range(0, 255)}; c.d.gen = true; c.d.seed = (uint64_t) t.raw() << 1; c.d.n = (uint32_t) t.range(0, 200); c.d.text = true; break; }
            case 7: { c.f = "flush"; c.a = {}; break; }
            case 8: {
                c.f = writer_open ? "wr_close" : (twr ? "twr_open" : "wr_open"); c.a = {0};
                if (writer_open) { writer_open = false; sigs_on_disk = sigs; }     // file 0 is complete: readers see the signals defined so far
                else {
                    // re-opening the writer truncates file 0 and the executor closes the readers on it: keep the bookkeeping in step
                    writer_open = true; sigs.clear(); srcs = {1}; sigs_on_disk.clear(); rd_open[0] = rd_open[1] = false; wrote_samples = false; data_sig = -1;
                }
                break;
            }
            case 9: {   // reader calls (open a reader on file 0 if none)
                int r = (int) t.below(2);
                if (!rd_open[r]) {
                    int64_t file = t.chance(9, 10) ? 0 : t.range(1, 3);
                    if (file == 0 && writer_open) {
                        // a reader on the file that is being written is not a defined use (the executor skips it): finish the file first,
                        // so that the reader calls that follow operate on a complete file with the signals defined so far.
                        // Make sure that file holds at least one FSR signal with samples (constructed, not hoped for): reader-side
                        // misuse - windows at and beyond the end, huge starts/increments, wrong-type reads - needs real data to act on.
                        if (!wrote_samples) {
                            int id = (int) t.range(1, 12);
                            const DType & dt = DTYPES[t.below(N_DTYPES)];
                            Call d; d.f = "signal"; d.a = {id, 0, 0, (int64_t) dt.code, 1000, 10, 10, 10, 10, 0, 0}; d.s1 = gen_name(t, "s"); d.s2 = gen_name(t, "u"); push(d);
                            sigs.push_back(id); data_sig = id;
                            Call w; w.f = "fsr"; w.a = {id, -1, t.pick(std::vector<int64_t>{1, 9, 10, 11, 95, 100, 101, 250, 1000, 1005, 3333}), (int64_t) t.raw()}; push(w);
                            wrote_samples = true;
                        }
                        // Two finished files in five also get a big-block signal (measured: at one in eight only ~0.1 % of the cases had one) (samples_per_data beyond the 65536-entry minimum of the
                        // reader's level-0 scratch buffers, more than one block of samples) and two statistics requests served from
                        // raw samples, small signal first: the reader must grow its shared buffers between the two (seeded/C10d).
                        if (big.want && !twr && !big.used) {
                            big.used = true;
                            const DType & dtb = *dtype_by_name(big.dtype.c_str());
                            Call d; d.f = "signal"; d.a = {big.id, 0, 0, (int64_t) dtb.code, 1000, big.spd, big.sdf, std::max<int64_t>(16, 2 * big.spd / big.sdf), 8, 0, 0};   // entries_per_summary * sdf >= spd, or the block size is aligned down
                            d.s1.null = false; d.s2.null = false; push(d);
                            sigs.push_back(big.id);
                            int64_t left = big.left;
                            uint64_t ds = big.seed;
                            while (left > 0) { ds = mix64(ds, 77); int64_t nn = std::min<int64_t>(left, 30000 + (int64_t) (ds % 70001)); Call w; w.f = "fsr"; w.a = {big.id, -1, nn, (int64_t) (ds >> 8)}; push(w); left -= nn; }
                            pending_big = big.id; pending_big_short = big.spd > 200000;
                        }
                        Call cl; cl.f = "wr_close"; cl.a = {0}; push(cl);
                        writer_open = false; sigs_on_disk = sigs;
                    }
                    c.f = "rd_open"; c.a = {r, file}; rd_open[r] = true;
                    if (pending_big >= 0 && file == 0) {
                        push(c);
                        if (data_sig >= 0) { Call s1; s1.f = "rd_stats"; s1.a = {r, data_sig, 0, 1, 1, 0}; push(s1); }   // always inside: the constructed signal has >= 1 sample
                        Call s2; s2.f = "rd_stats";
                        s2.a = {r, pending_big, big.s_start, big.s_incr, big.s_cnt, 0};
                        c = s2; pending_big = -1;
                    }
                    break;
                }
                static const std::vector<std::string> F = {"rd_fsr", "rd_fsr", "rd_fsr", "rd_stats", "rd_stats", "rd_stats", "rd_len", "rd_annos", "rd_utc", "rd_user", "rd_signal", "rd_signals", "rd_s2t", "rd_t2s", "rd_fsr_f32", "rd_close"};
                c.f = F[t.below((uint32_t) F.size())];
                int id = (data_sig >= 0 && t.chance(1, 2)) ? data_sig : gen_id(t, sigs_on_disk);
                // last argument: 0 = window as given; 1..4 = the executor moves the window to an edge of the signal once its length is known
                // (1: ends exactly at the last sample, 2: ends one sample behind it, 3: starts at length, 4: longer than the signal)
                if (c.f == "rd_fsr" || c.f == "rd_fsr_f32") c.a = {r, id, t.chance(3, 4) ? t.range(0, 300) : gen_i64(t), t.chance(3, 4) ? t.range(0, 300) : gen_i64(t), t.chance(1, 2) ? t.range(1, 4) : 0};
                else if (c.f == "rd_stats") c.a = {r, id, t.chance(3, 4) ? t.range(0, 300) : gen_i64(t), t.chance(3, 4) ? t.range(1, 200) : gen_i64(t), t.chance(3, 4) ? t.range(1, 30) : gen_i64(t), t.chance(1, 2) ? t.range(1, 4) : 0};
                else if (c.f == "rd_close") { c.a = {r}; rd_open[r] = false; }
                else c.a = {r, id, gen_i64(t), t.range(0, 3)};
                break;
            }
            case 10: { c.f = "copy"; c.a = {t.range(0, 2), 3}; break; }
            case 11: {  // raw navigation on file 0 (read only)
                static const std::vector<std::string> F = {"raw_next", "raw_prev", "raw_item_next", "raw_item_prev", "raw_rd", "raw_seek", "raw_scan", "raw_rd_header", "raw_seek_end"};
                c.f = F[t.below((uint32_t) F.size())];
                c.a = {t.chance(1, 2) ? (int64_t) (32 + 8 * t.range(0, 400)) : gen_i64(t), t.range(0, 5000)};
                break;
            }
            default: { c.f = "twr_flags"; c.a = {t.range(0, 3)}; break; }
        }
        push(c);
    }
    mj::Value cs = mj::Value::object();
    cs.set("calls", calls);
    return mj::dump(cs);
}

namespace {

struct Ctx {
    std::string known;      // id of an open known finding this case is an instance of
    bool file0_close_failed = false; std::vector<int32_t> close_errors; int rd_file[2] = {-1, -1};
    long edge_stats[5] = {0, 0, 0, 0, 0};
    long rd_calls = 0, rd_calls_no_reader = 0, rd_calls_fsr_with_data = 0, edge_windows = 0, rd_open_skipped_writer_open = 0;
    Writer w;
    bool is_twr = false;
    std::map<int, const DType *> sig_dt;     // defined FSR signals of the current writer
    std::map<int, int> sig_type;             // 0 FSR, 1 VSR
    std::set<int> src_defined;
    std::map<int, int64_t> next_id;
    Reader rd[2];
    struct jls_raw_s * raw = nullptr;
    int rejected = 0, data_ok = 0;
    std::string err, clause;
    void fail(const char * c, const std::string & d) { if (err.empty()) { clause = c; err = d; } }
};

const char * FILES[] = {"c10_a.jls", "c10_b.jls", "c10_missing.jls", "c10_copy.jls"};

// Closing can fail (the tail of the file could not be written: out of memory for a summary buffer, I/O error).  The library must
// say so; a file whose close reported an error is not promised to be readable, so the "in-range read must succeed" clause only
// applies to file 0 while file0_close_failed is false.  (Crashes, hangs and out-of-bounds accesses stay violations for any file.)
void close_writer(Ctx & x) {
    if (!x.w.is_open()) return;
    int32_t rc = x.w.close();
    x.file0_close_failed = (rc != 0);
    if (rc) { ++x.rejected; x.close_errors.push_back(rc); }
    x.sig_dt.clear(); x.sig_type.clear(); x.src_defined.clear(); x.next_id.clear();
}

void exec_call(Ctx & x, const Call & c) {
    auto A = [&](size_t k) -> int64_t { return k < c.a.size() ? c.a[k] : 0; };
    vfs::io_budget(5000000);
    int32_t rc = 0;
    const std::string & f = c.f;
    if (f == "wr_open" || f == "twr_open") {
        close_writer(x);
        // a reader/raw handle on the file being rewritten would read a file that changes underneath: close them first
        for (auto & r : x.rd) r.close();
        if (x.raw) { jls_raw_close(x.raw); x.raw = nullptr; }
        x.is_twr = (f == "twr_open");
        rc = x.w.open(x.is_twr ? "twr" : "sync", FILES[0]);
        if (rc) x.fail("open", strf("%s returned %d", f.c_str(), rc));
        x.src_defined.insert(0);
    } else if (f == "wr_close") { close_writer(x); }
    else if (f == "twr_flags") { if (x.w.twr) { jls_twr_flags_set(x.w.twr, (uint32_t) A(0)); (void) jls_twr_flags_get(x.w.twr); } }
    else if (f == "source" || f == "signal" || f == "fsr" || f == "fsr_f32" || f == "omit" || f == "anno" || f == "utc" || f == "user" || f == "flush") {
        if (!x.w.is_open()) { vfs::io_budget(0); return; }
        // queue everything first so that "file bytes unchanged" is observable for the threaded writer too
        if (x.w.twr && f != "flush") jls_twr_flush(x.w.twr);
        std::vector<uint8_t> before = vfs::get(FILES[0]);
        uint64_t cap_hits_at_call = vfs::cap_hits();
        bool must_reject = false, may_reject = true;
        CStr cs;
        if (f == "source") {
            struct jls_source_def_s d = {};
            d.source_id = (uint16_t) A(0); d.name = cs.get(c.s1); d.vendor = cs.get(c.s2); d.model = "m"; d.version = nullptr; d.serial_number = "";
            must_reject = A(0) >= 256 || A(0) < 0 || x.src_defined.count((int) A(0));
            rc = x.w.twr ? jls_twr_source_def(x.w.twr, &d) : jls_wr_source_def(x.w.wr, &d);
            if (!rc) x.src_defined.insert((int) A(0));
        } else if (f == "signal") {
            struct jls_signal_def_s d = {};
            d.signal_id = (uint16_t) A(0); d.source_id = (uint16_t) A(1); d.signal_type = (uint8_t) A(2); d.data_type = (uint32_t) A(3); d.sample_rate = (uint32_t) A(4);
            d.samples_per_data = (uint32_t) A(5); d.sample_decimate_factor = (uint32_t) A(6); d.entries_per_summary = (uint32_t) A(7); d.summary_decimate_factor = (uint32_t) A(8);
            d.annotation_decimate_factor = (uint32_t) A(9); d.utc_decimate_factor = (uint32_t) A(10);
            d.name = cs.get(c.s1); d.units = cs.get(c.s2);
            int id = (int) (uint16_t) A(0), src = (int) (uint16_t) A(1);
            must_reject = id >= 256 || src >= 256 || id == 0 || x.sig_type.count(id) || !x.src_defined.count(src) || (A(2) & 0xff) > 1;
            // the threaded writer documents no range for signal_id either: it must reject, not index out of bounds
            rc = x.w.twr ? jls_twr_signal_def(x.w.twr, &d) : jls_wr_signal_def(x.w.wr, &d);
            if (!rc) {
                x.sig_type[id] = (int) (A(2) & 0xff);
                const DType * dt = nullptr;
                for (int k = 0; k < N_DTYPES; ++k) if (DTYPES[k].code == ((uint32_t) A(3) & 0xffff)) dt = &DTYPES[k];
                if ((A(2) & 0xff) == 0 && dt) x.sig_dt[id] = dt;
            }
        } else if (f == "fsr" || f == "fsr_f32") {
            int id = (int) (uint16_t) A(0);
            auto it = x.sig_dt.find(id);
            bool defined = it != x.sig_dt.end();
            const DType * dt = defined ? it->second : nullptr;
            int64_t n = A(2);
            if (n < 0) n = 0;
            if (defined && n > 100000) n = 100000;     // caller buffers must really hold n samples
            must_reject = !defined && n > 0;
            if (f == "fsr_f32" && defined && strcmp(dt->name, "f32")) must_reject = true;   // (sync writer; the threaded writer only knows the sample size)
            auto nit = x.next_id.find(id);
            int64_t sid = A(1) == -1 ? (nit == x.next_id.end() ? 0 : nit->second) : A(1);
            size_t nbytes = defined ? (size_t) ((n * dt->bits + 7) / 8) : 1;
            if (f == "fsr_f32") nbytes = defined ? (size_t) n * 4 : 1;   // documented: data_length floats
            HeapBuf hb(nbytes);
            for (size_t k = 0; k < nbytes; ++k) hb.p[k] = (uint8_t) (mix64((uint64_t) A(3), k) >> 9);
            if (defined && dt->kind == 'f') memset(hb.p, 0, nbytes);
            // gaps would write as many fill samples as the gap is long: keep them bounded
            // gaps write as many fill samples as the gap is long: keep them bounded, measured from where the LIBRARY's signal ends
            // (x.next_id is only updated by accepted calls; it used to be set by rejected ones too, which let one astronomic gap
            // through - that accident is now the confirming replay of KF-C10-1, corpus/C10/gap-fill-unbounded.json)
            bool explicit_far = false;
            if (defined && x.next_id.count(id) && ((__int128) sid - (__int128) x.next_id[id]) > 200000) {
                if (A(4) == 777) explicit_far = true;            // replay marker: keep the astronomic gap
                else sid = x.next_id[id] + 200000;
            }
            uint64_t cap_before = vfs::cap_hits();
            if (f == "fsr_f32") rc = x.w.twr ? jls_twr_fsr_f32(x.w.twr, (uint16_t) A(0), sid, (const float *) hb.p, (uint32_t) n) : jls_wr_fsr_f32(x.w.wr, (uint16_t) A(0), sid, (const float *) hb.p, (uint32_t) n);
            else rc = x.w.twr ? jls_twr_fsr(x.w.twr, (uint16_t) A(0), sid, hb.p, (uint32_t) n) : jls_wr_fsr(x.w.wr, (uint16_t) A(0), sid, hb.p, (uint32_t) n);
            if (!rc && defined && n > 0) { ++x.data_ok; if (!x.next_id.count(id) || sid + n > x.next_id[id]) x.next_id[id] = sid + n; }
            if ((vfs::cap_hits() > cap_before || vfs::budget_exceeded()) && nbytes < (1u << 20)) {
                // a call that was handed less than 1 MiB of samples issued more than 5e6 backend operations or wrote until the
                // backend (256 MiB cap) was full: on a real disk it would not terminate in any practical sense.  Known cause: a gap of astronomic length is not refused (KF-C10-1);
                // any other runaway is a violation.
                x.fail("runaway_write", strf("%s(sig %d, sample id %lld, %lld samples) returned %d %s after more than 5e6 backend operations / writing until the backend was full", f.c_str(), id, (long long) sid, (long long) n, rc, ec_name(rc)));
                if (explicit_far) x.known = "KF-C10-1";
            }
            // the threaded writer knows the sample size of every defined FSR signal: an undefined one, or the f32 call on a signal
            // whose samples are not 32 bits wide, must be reported by the call itself (the writer thread has no way to report it)
            if (x.w.twr) must_reject = (!defined && n > 0) || (f == "fsr_f32" && defined && dt->bits != 32 && n > 0);
        } else if (f == "omit") {
            int id = (int) (uint16_t) A(0);
            must_reject = !x.sig_dt.count(id);
            rc = x.w.twr ? jls_twr_fsr_omit_data(x.w.twr, (uint16_t) A(0), (uint32_t) A(1)) : jls_wr_fsr_omit_data(x.w.wr, (uint16_t) A(0), (uint32_t) A(1));
        } else if (f == "anno" || f == "user") {
            std::vector<uint8_t> b = c.d.bytes();
            int stor = (int) (f == "anno" ? A(5) : A(1));
            bool str = (stor == 2 || stor == 3);
            if (str || (stor & 0xff) != 1) b.push_back(0);     // always NUL-terminated when the library might treat it as a string
            HeapBuf hb(b.size());
            if (!b.empty()) memcpy(hb.p, b.data(), b.size());
            uint32_t dsz = (uint32_t) b.size();
            if (f == "anno") {
                int id = (int) (uint16_t) A(0);
                must_reject = (id != 0 && !x.sig_type.count(id)) || (stor & 0xff) < 1 || (stor & 0xff) > 3;
                float y = (float) A(2);
                rc = x.w.twr ? jls_twr_annotation(x.w.twr, (uint16_t) A(0), A(1), y, (enum jls_annotation_type_e) (A(3) & 0xff), (uint8_t) A(4), (enum jls_storage_type_e) (stor & 0xff), hb.p, str ? 0 : dsz)
                             : jls_wr_annotation(x.w.wr, (uint16_t) A(0), A(1), y, (enum jls_annotation_type_e) (A(3) & 0xff), (uint8_t) A(4), (enum jls_storage_type_e) (stor & 0xff), hb.p, str ? 0 : dsz);
            } else {
                must_reject = (stor & 0xff) > 3;
                if ((stor & 0xff) == 0) may_reject = true;
                rc = x.w.twr ? jls_twr_user_data(x.w.twr, (uint16_t) A(0), (enum jls_storage_type_e) (stor & 0xff), hb.p, str ? 0 : dsz) : jls_wr_user_data(x.w.wr, (uint16_t) A(0), (enum jls_storage_type_e) (stor & 0xff), hb.p, str ? 0 : dsz);
            }
            if (!rc) ++x.data_ok;
        } else if (f == "utc") {
            int id = (int) (uint16_t) A(0);
            must_reject = !x.sig_dt.count(id);
            rc = x.w.twr ? jls_twr_utc(x.w.twr, (uint16_t) A(0), A(1), A(2)) : jls_wr_utc(x.w.wr, (uint16_t) A(0), A(1), A(2));
        } else { rc = x.w.twr ? jls_twr_flush(x.w.twr) : jls_wr_flush(x.w.wr); may_reject = false; if (rc) x.fail("flush", strf("flush returned %d", rc)); }
        (void) may_reject;
        if (must_reject && rc == 0) x.fail("accepted_invalid", strf("call %s%s was accepted (rc 0) but must be rejected", mj::dump(call_json(c)).substr(0, 240).c_str(), x.w.twr ? " [threaded writer]" : ""));
        if (rc) {
            ++x.rejected;
            if (x.w.twr) jls_twr_flush(x.w.twr);
            // the "unchanged file" clause is about calls rejected for what they ask (ids, types, duplicates, ranges);
            // a call that runs out of memory half-way (huge definition parameters) may have appended chunks already
            // ... and so may a call that ran into a full disk (IO with the VFS size cap hit during this call)
            bool disk_full = (rc == JLS_ERROR_IO) && (vfs::cap_hits() > cap_hits_at_call || vfs::budget_exceeded());
            if (f != "flush" && rc != JLS_ERROR_NOT_ENOUGH_MEMORY && !disk_full && vfs::get(FILES[0]) != before) x.fail("rejected_changed_file", strf("call %s returned %d %s but changed the file bytes", mj::dump(call_json(c)).substr(0, 240).c_str(), rc, ec_name(rc)));
        }
    } else if (f == "rd_open") {
        int r = (int) A(0) & 1;
        x.rd[r].close();
        if (x.w.is_open() && A(1) == 0) { ++x.rd_open_skipped_writer_open; vfs::io_budget(0); return; }   // opening the file that is being written would repair it underneath the writer: not a defined use
        rc = x.rd[r].open(FILES[A(1) & 3]);
        x.rd_file[r] = (int) (A(1) & 3);
    } else if (f.rfind("rd_", 0) == 0) {
        int r = (int) A(0) & 1;
        struct jls_rd_s * rd = x.rd[r].rd;
        if (f == "rd_close") { x.rd[r].close(); vfs::io_budget(0); return; }
        ++x.rd_calls;
        if (!rd) { ++x.rd_calls_no_reader; vfs::io_budget(0); return; }
        uint16_t id = (uint16_t) A(1);
        struct jls_signal_def_s sd = {};
        bool defined = (A(1) >= 0 && A(1) < 65536) && jls_rd_signal(rd, id, &sd) == 0;
        const DType * dt = nullptr;
        if (defined) for (int k = 0; k < N_DTYPES; ++k) if (DTYPES[k].code == (sd.data_type & 0xffff)) dt = &DTYPES[k];
        bool fsr = defined && sd.signal_type == JLS_SIGNAL_TYPE_FSR && dt;
        int64_t len = 0;
        if (fsr && jls_rd_fsr_length(rd, id, &len)) len = 0;
        if (fsr && len > 0) ++x.rd_calls_fsr_with_data;
        if (f == "rd_len") { int64_t l = -1; rc = jls_rd_fsr_length(rd, id, &l); if (!fsr && rc == 0) x.fail("accepted_invalid", strf("jls_rd_fsr_length(%u) succeeded for an undefined or non-FSR signal", id)); }
        else if (f == "rd_signal") { rc = jls_rd_signal(rd, id, &sd); }
        else if (f == "rd_signals") { struct jls_signal_def_s * p = nullptr; uint16_t n = 0; rc = jls_rd_signals(rd, &p, &n); struct jls_source_def_s * q = nullptr; jls_rd_sources(rd, &q, &n); }
        else if (f == "rd_fsr" || f == "rd_fsr_f32") {
            int64_t start = A(2), n = A(3);
            if (fsr && len > 0 && A(4) >= 1 && A(4) <= 4) {
                ++x.edge_windows;
                if (n < 1 || n > 100000) n = 1 + (n & 63);
                switch ((int) A(4)) {
                    case 1: if (n > len) n = len; start = len - n; break;
                    case 2: if (n > len) n = len; start = len - n + 1; break;
                    case 3: start = len; break;
                    default: n = len + 1; start = 0; break;
                }
            }
            bool inside = fsr && start >= 0 && n > 0 && n <= len && start <= len - n;
            bool f32bad = (f == "rd_fsr_f32") && fsr && strcmp(dt->name, "f32");
            size_t sz = (inside && !f32bad) ? rd_buf_size(*dt, n) : 1;
            HeapBuf hb(sz);
            memset(hb.p, 0x5c, sz);
            rc = (f == "rd_fsr_f32") ? jls_rd_fsr_f32(rd, id, start, (float *) hb.p, n) : jls_rd_fsr(rd, id, start, hb.p, n);
            if (n > 0 && rc == 0 && (!inside || f32bad)) x.fail("accepted_invalid", strf("%s(sig %u, start %lld, n %lld) returned 0 but the window is outside [0,%lld) or the signal is undefined / of another type", f.c_str(), id, (long long) start, (long long) n, (long long) len));
            bool file_ok = !(x.rd_file[r] == 0 && x.file0_close_failed);
            if (inside && !f32bad && rc && file_ok) x.fail("rejected_valid", strf("%s(sig %u, start %lld, n %lld) inside [0,%lld) returned %d %s", f.c_str(), id, (long long) start, (long long) n, (long long) len, rc, ec_name(rc)));
            if (!rc && inside) ++x.data_ok;
        } else if (f == "rd_stats") {
            int64_t start = A(2), incr = A(3), cnt = A(4);
            if (fsr && len > 0 && A(5) >= 1 && A(5) <= 4) {
                ++x.edge_windows; ++x.edge_stats[(int) A(5)];
                if (incr < 1 || incr > len) incr = 1 + (incr & 15) % len;
                if (cnt < 1 || cnt > len / incr) cnt = 1 + (cnt & 1023) % (len / incr);
                switch ((int) A(5)) {
                    case 1: start = len - incr * cnt; break;           // the last window ends exactly at the last sample
                    case 2: start = len - incr * cnt + 1; break;       // ... one sample behind it
                    case 3: start = len; break;
                    default: start = 0; incr = len + 1; cnt = 1; break;
                }
            }
            bool inside = fsr && start >= 0 && incr > 0 && cnt > 0 && cnt <= (1 << 20) && incr <= len && cnt <= len / incr && start <= len - incr * cnt;
            size_t sz = inside ? (size_t) cnt * 4 * sizeof(double) : 1;
            HeapBuf hb(sz);
            rc = jls_rd_fsr_statistics(rd, id, start, incr, (double *) hb.p, cnt);
            if (incr <= 0 && rc == 0) x.fail("accepted_invalid", strf("jls_rd_fsr_statistics with increment %lld returned 0", (long long) incr));
            if (cnt > 0 && incr > 0 && !inside && rc == 0) x.fail("accepted_invalid", strf("jls_rd_fsr_statistics(sig %u, %lld, %lld, %lld) returned 0 but lies outside [0,%lld) or the signal is undefined", id, (long long) start, (long long) incr, (long long) cnt, (long long) len));
        } else if (f == "rd_annos") { AnnoCollect ac; ac.stop_after = (int) A(3) ? (int) A(3) : -1; rc = jls_rd_annotations(rd, id, A(2), anno_cbk, &ac); }
        else if (f == "rd_utc") { UtcCollect uc; uc.stop_after = (int) A(3) ? (int) A(3) : -1; rc = jls_rd_utc(rd, id, A(2), utc_cbk, &uc); }
        else if (f == "rd_user") { UserCollect uc; uc.stop_after = (int) A(3) ? (int) A(3) : -1; rc = jls_rd_user_data(rd, user_cbk, &uc); }
        else if (f == "rd_s2t") { int64_t o = 0; rc = jls_rd_sample_id_to_timestamp(rd, id, A(2), &o); if (!fsr && rc == 0) x.fail("accepted_invalid", "sample_id_to_timestamp succeeded for an undefined/non-FSR signal"); }
        else if (f == "rd_t2s") { int64_t o = 0; rc = jls_rd_timestamp_to_sample_id(rd, id, A(2), &o); if (!fsr && rc == 0) x.fail("accepted_invalid", "timestamp_to_sample_id succeeded for an undefined/non-FSR signal"); }
        if (rc) ++x.rejected;
    } else if (f == "copy") {
        if (x.w.is_open() && (A(0) & 3) == 0) { vfs::io_budget(0); return; }
        rc = jls_copy(FILES[A(0) & 3], FILES[3], nullptr, nullptr, nullptr, nullptr);
        if (rc) ++x.rejected;
    } else if (f.rfind("raw_", 0) == 0) {
        if (x.w.is_open()) { vfs::io_budget(0); return; }
        if (!x.raw) { if (jls_raw_open(&x.raw, FILES[0], "r") && x.raw) { /* TRUNCATED is still usable */ } if (!x.raw) { vfs::io_budget(0); return; } }
        if (f == "raw_next") rc = jls_raw_chunk_next(x.raw);
        else if (f == "raw_prev") rc = jls_raw_chunk_prev(x.raw);
        else if (f == "raw_item_next") rc = jls_raw_item_next(x.raw);
        else if (f == "raw_item_prev") rc = jls_raw_item_prev(x.raw);
        else if (f == "raw_seek") rc = jls_raw_chunk_seek(x.raw, A(0));
        else if (f == "raw_seek_end") rc = jls_raw_seek_end(x.raw);
        else if (f == "raw_scan") rc = jls_raw_chunk_scan(x.raw);
        else if (f == "raw_rd_header") { struct jls_chunk_header_s h; rc = jls_raw_rd_header(x.raw, &h); }
        else if (f == "raw_rd") { struct jls_chunk_header_s h; size_t sz = (size_t) A(1); HeapBuf hb(sz ? sz : 1); rc = jls_raw_rd(x.raw, &h, (uint32_t) sz, hb.p); }
        (void) jls_raw_chunk_tell(x.raw);
    }
    if (vfs::budget_exceeded()) x.fail("no_progress", strf("call %s issued more than 5e6 backend calls", mj::dump(call_json(c)).substr(0, 200).c_str()));
    vfs::io_budget(0);
}

}  // namespace

CaseOutcome prop_execute(const std::string & case_json) {
    CaseOutcome oc;
    mj::Value cs = mj::parse(case_json);
    vfs::reset();
    Ctx x;
    for (auto & cv : cs.at("calls").a) {
        Call c = call_from(cv);
        exec_call(x, c);
        oc.tags.push_back("call:" + c.f);
        if (!x.err.empty()) break;
    }
    // everything is closed at the end of the iteration
    close_writer(x);
    for (auto & r : x.rd) r.close();
    if (x.raw) { jls_raw_close(x.raw); x.raw = nullptr; }
    if (x.err.empty() && vfs::open_fds() != 0) x.fail("fd_leak", strf("%d backend descriptors still open after every instance was closed", vfs::open_fds()));
    if (!x.err.empty()) { oc.fail(x.clause, x.err); oc.known = x.known; }
    oc.nontrivial = x.rejected > 0 && x.data_ok > 0;
    oc.counters.push_back({"reader_calls", x.rd_calls});
    oc.counters.push_back({"reader_calls_without_an_open_reader", x.rd_calls_no_reader});
    oc.counters.push_back({"reader_calls_on_fsr_signal_with_data", x.rd_calls_fsr_with_data});
    oc.counters.push_back({"windows_moved_to_a_signal_edge", x.edge_windows});
    { long nb = 0; for (auto & cv : cs.at("calls").a) if (cv.get_str("f", "") == "signal" && cv.has("a") && cv.at("a").a.size() > 5 && cv.at("a").a[0].as_int() >= 200 && cv.at("a").a[0].as_int() <= 240 && cv.at("a").a[5].as_int() >= 65544) ++nb;
      oc.counters.push_back({"big_block_scenarios", nb}); }
    oc.counters.push_back({"statistics_windows_ending_exactly_at_the_last_sample", x.edge_stats[1]});
    oc.counters.push_back({"statistics_windows_ending_one_sample_behind_the_signal", x.edge_stats[2]});
    oc.counters.push_back({"rd_open_skipped_because_writer_open", x.rd_open_skipped_writer_open});
    vfs::reset();
    return oc;
}
