// C06 — the threaded writer applies accepted calls exactly once, in order, on any schedule.
#include <set>
#include "../twr_common.h"

const char * prop_id() { return "C06"; }
const char * prop_rule() {
    return "case = threaded-writer program (1-2 FSR signals, fsr messages sized from a few bytes to more than the 1 KiB queue, annotations, "
           "UTC, user data, omit, flush; drop-on-overflow on/off; definitions from the application thread; optionally a second application "
           "thread writing a disjoint signal) x schedule (choice vector over every lock/unlock/wait/signal/sleep/queue-operation/mid-memcpy/"
           "backend-I/O point, time jumps that let a sleeper overtake, per-I/O latency of 6 s / 25 s) executed on a deterministic scheduler "
           "with virtual time; oracle = (1) the calls applied by the writer thread are exactly the accepted submissions, per producer in order; "
           "(2) the file equals the one written synchronously from the accepted calls; (3) every queue operation under the queue lock, every "
           "applied call under the process lock; non-trivial = queue wrapped or was full and >= 1 context switch with a lock held or between "
           "peek and pop; distinct = case hash";
}

std::string prop_generate(Tape & t, int size) {
    TwrCase c = gen_twr_case(t, size, false);
    return mj::dump(twr_case_json(c));
}

namespace {
struct Applied { std::string kind; int64_t a, b; uint64_t h; int32_t rc; };
std::string kind_of(const Op & o) { return o.op == "fsr" ? "wr_fsr" : o.op == "anno" ? "wr_annotation" : o.op == "utc" ? "wr_utc" : o.op == "user" ? "wr_user_data" : o.op == "omit" ? "wr_omit" : ""; }
}

CaseOutcome prop_execute(const std::string & case_json) {
    CaseOutcome oc;
    TwrCase c = twr_case_from(mj::parse(case_json));
    vfs::reset();
    const char * path = "c06_twr.jls";
    TwrRun r = run_twr_case(c, path);
    if (!r.verdict.empty()) { oc.fail("scheduler", r.verdict); vfs::reset(); return oc; }
    if (r.open_rc) { oc.fail("open", strf("jls_twr_open returned %d", r.open_rc)); vfs::reset(); return oc; }
    // (3) lock discipline
    for (auto & e : r.trace) {
        if (e.what.rfind("mrb_", 0) == 0 && !e.msg_lock) { oc.fail("lock_discipline", strf("thread %d performed %s on the queue without holding the queue lock", e.thread, e.what.c_str())); break; }
        if ((e.what == "wr_fsr" || e.what == "wr_annotation" || e.what == "wr_utc" || e.what == "wr_user_data" || e.what == "wr_omit" || e.what == "wr_flush") && !e.process_lock) {
            oc.fail("lock_discipline", strf("thread %d applied %s to the writer without holding the process lock", e.thread, e.what.c_str())); break;
        }
        if (e.what == "unlock_not_owner") { oc.fail("lock_discipline", strf("thread %d unlocked a mutex it does not own", e.thread)); break; }
    }
    // (1) applied calls == accepted submissions (per producer, in order)
    if (oc.ok) {
        std::map<int, std::vector<size_t>> accepted;   // producer thread -> op indices
        for (auto & s : r.subs) { const Op & o = c.prog.ops[s.op_index]; if (s.rc == 0 && !kind_of(o).empty()) accepted[s.thread].push_back(s.op_index); }
        std::vector<sched::Event> applied;
        for (auto & e : r.trace) if (e.what == "wr_fsr" || e.what == "wr_annotation" || e.what == "wr_utc" || e.what == "wr_user_data" || e.what == "wr_omit") applied.push_back(e);
        size_t total = 0; for (auto & kv : accepted) total += kv.second.size();
        if (applied.size() != total) oc.fail("exactly_once", strf("%zu data calls were accepted but the writer thread applied %zu", total, applied.size()));
        std::map<int, size_t> pos;
        for (size_t k = 0; k < applied.size() && oc.ok; ++k) {
            const sched::Event & e = applied[k];
            // find the producer whose next accepted op matches
            bool matched = false;
            for (auto & kv : accepted) {
                size_t & p = pos[kv.first];
                if (p >= kv.second.size()) continue;
                const Op & o = c.prog.ops[kv.second[p]];
                bool same = kind_of(o) == e.what && ((o.op == "fsr" && e.a == o.sig && e.b == o.sample_id && e.hash == o.n) || (o.op == "anno" && e.a == o.sig && e.b == o.ts) || (o.op == "utc" && e.a == o.sig && e.b == o.sample_id && (int64_t) e.hash == o.utc) ||
                                                   (o.op == "user" && e.a == (o.meta & 0xffff)) || (o.op == "omit" && e.a == o.sig && e.b == o.enable));
                if (same) { ++p; matched = true; break; }
            }
            if (!matched) oc.fail("order", strf("applied call #%zu (%s sig/meta %lld arg %lld) is not the next accepted submission of any application thread (lost, duplicated or reordered message)", k, e.what.c_str(), (long long) e.a, (long long) e.b));
        }
    }
    // (2) content: equals the file written synchronously from the accepted calls in order
    if (oc.ok) {
        Program ref; ref.via = "sync"; ref.close = true;
        for (auto & s : r.subs) { const Op & o = c.prog.ops[s.op_index]; if (s.rc == 0 && o.op != "flush") ref.ops.push_back(o); }
        // submissions of two application threads interleave arbitrarily: per-signal order is what matters, and subs is in issue order
        Model m2;
        ExecResult er = run_program(ref, "c06_ref.jls", m2, false);
        if (er.open_rc) oc.fail("reference", "reference writer failed");
        else {
            std::vector<uint8_t> tb = vfs::get(path);
            dec::File tf = dec::decode(tb);
            if (!tf.violations.empty() || !tf.closed) oc.fail("file", strf("the file produced by the threaded writer is not a well-formed closed file: %s", tf.violations.empty() ? "no END/length" : tf.violations[0].c_str()));
            else {
                Dump a = dump_file(path, 0), b = dump_file("c06_ref.jls", 0);
                std::string d = dump_compare(a, b, false, "the threaded-writer file", "the synchronous reference");
                if (!d.empty()) oc.fail("content", d);
            }
        }
    }
    bool rejected = false; for (auto & s : r.subs) if (s.rc) rejected = true;
    oc.nontrivial = (r.stats.queue_wrapped || r.stats.queue_full_seen) && (r.stats.switches_with_lock > 0 || r.stats.switches_between_peek_pop > 0);
    if (r.stats.queue_wrapped) oc.tags.push_back("queue_wrapped");
    if (r.stats.queue_full_seen) oc.tags.push_back("queue_full");
    if (rejected) oc.tags.push_back("submission_rejected");
    if (r.stats.time_jumps) oc.tags.push_back("time_jump");
    if (c.second_sig >= 0) oc.tags.push_back("two_producers");
    if (c.drop) oc.tags.push_back("drop_on_overflow");
    if (!c.sch.pct.empty()) { oc.tags.push_back("pct_schedule"); if (oc.nontrivial) oc.tags.push_back("pct_schedule_nontrivial"); }
    oc.counters.push_back({"scheduling_steps", (long) r.stats.steps});
    oc.counters.push_back({"context_switches", (long) r.stats.switches});
    oc.counters.push_back({"switches_with_lock_held", (long) r.stats.switches_with_lock});
    oc.counters.push_back({"switches_between_peek_and_pop", (long) r.stats.switches_between_peek_pop});
    vfs::reset();
    return oc;
}

// ---- exhaustive part: every schedule with <= K preemptions of a few tiny programs ------------------
#include "../twr_enum.h"
std::string prop_enumerate(const std::string & tier, const std::string & outdir) { return twr_enum::run(tier, outdir, false); }
