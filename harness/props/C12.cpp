// C12 — UTC entries round-trip; id/time conversion is anchored, monotone, invertible.
#include "../gen_common.h"

const char * prop_id() { return "C12"; }
const char * prop_rule() {
    return "case = one FSR signal (sample rate 1 Hz .. 10^9 Hz, first sample id zero/offset/negative, utc decimate factor 2/3/10/default) "
           "with an anchor table of strictly increasing sample ids and times advancing >= 1 tick per sample (nominal rate with drift "
           "+-200 ppm and irregular spacing), counts {0,1,2,3,df+-1,999,1000,1001,2000,df^2+1}; queries at every anchor, midpoints, +-1 "
           "around anchors, before the first and after the last anchor; oracle = list model + exact rational interpolation in __int128; "
           "non-trivial = >= 2 anchors and (a query outside the anchor range or >= 1000 anchors); distinct = case hash";
}

namespace {
const int64_t TICKS = 1LL << 30;   // JLS time: 34Q30 fixed point, 2^30 ticks per second

// exact piecewise-linear reference, rounded to nearest; returns false if undefined
bool ref_interp(const std::vector<int64_t> & x, const std::vector<int64_t> & y, int64_t x0, double rate_x_per_y_for_single, bool to_time, long double & out) {
    size_t n = x.size();
    if (n == 0) return false;
    if (n == 1) {
        (void) to_time;
        out = (long double) y[0] + (long double) (x0 - x[0]) * (long double) rate_x_per_y_for_single;
        return true;
    }
    size_t lo = 0;
    while (lo + 2 < n && x0 >= x[lo + 1]) ++lo;        // segment [lo, lo+1]; extrapolate from the nearest one
    __int128 num = (__int128) (x0 - x[lo]) * (__int128) (y[lo + 1] - y[lo]);
    __int128 den = (__int128) (x[lo + 1] - x[lo]);
    out = (long double) y[lo] + (long double) num / (long double) den;
    return true;
}
}

std::string prop_generate(Tape & t, int size) {
    Program p;
    p.ops.push_back(gen_source(t, 1));
    const DType & dt = DTYPES[t.below(N_DTYPES)];
    Op def = gen_signal(t, 1, 1, dt, DEF_MINIMAL);
    def.rate = (uint32_t) t.pick(std::vector<int64_t>{1000, 1, 10, 48000, 1000000, 2000000, 100000000, 1000000000});
    def.utcdf = (uint32_t) t.pick(std::vector<uint32_t>{2, 10, 12, 0, 10, 3});
    uint32_t df = def.utcdf ? std::max<uint32_t>(def.utcdf, 10) : 100;   // factors below 10 are raised to the minimum by the library
    p.ops.push_back(def);
    int64_t first = t.chance(1, 3) ? 0 : gen_first_id(t);
    if (first > (1LL << 50)) first = 1LL << 41;
    if (first < -(1LL << 50)) first = -(1LL << 41);
    int64_t nsamp = t.range(1, 200);
    { Op w; w.op = "fsr"; w.sig = 1; w.sample_id = first; w.n = (uint32_t) nsamp; w.pat.kind = "small"; w.pat.seed = t.raw(); p.ops.push_back(w); }
    int64_t count;
    switch (t.weighted({1, 2, 2, 2, 3, 2, 2, 1})) {
        case 0: count = 0; break;
        case 1: count = 1; break;
        case 2: count = 2; break;
        case 3: count = 3; break;
        case 4: count = (int64_t) df + t.range(-1, 1); break;
        case 5: count = (int64_t) df * df + 1; break;
        case 6: count = t.pick(std::vector<int64_t>{999, 1000, 1001}); break;
        default: count = t.pick(std::vector<int64_t>{2000, 2001}); break;
    }
    if (count > 100 && size < 40) count = 5 + size;      // big tables only at larger sizes
    if (df >= 100 && count > 2001) count = 2001;
    // anchors: ids relative to the first sample, starting within the hour before it
    double ticks_per_sample = (double) TICKS / (double) def.rate;
    int64_t id = -t.range(0, std::min<int64_t>(3000, 3599 * (int64_t) def.rate));
    int64_t utc = t.range(0, 1LL << 45) + (t.coin() ? (60LL * 365 * 86400 * TICKS / 100) : 0);
    double drift = 1.0 + (double) t.range(-200, 200) * 1e-6;
    for (int64_t k = 0; k < count; ++k) {
        Op u; u.op = "utc"; u.sig = 1; u.sample_id = first + id; u.utc = utc;
        p.ops.push_back(u);
        int64_t step;
        switch (t.weighted({4, 2, 2, 1})) {
            case 0: step = (int64_t) def.rate; break;                       // one anchor per second
            case 1: step = t.range(1, 10); break;
            case 2: step = t.range(1, (int64_t) def.rate * 2 + 1); break;
            default: step = 1; break;
        }
        if (step < 1) step = 1;
        if (step > (1LL << 31)) step = 1LL << 31;
        id += step;
        long double dtk = (long double) step * ticks_per_sample * drift;
        int64_t dticks = (int64_t) dtk;
        if (dticks < step) dticks = step;   // at least one tick per sample
        utc += dticks;
    }
    // data after the anchors so that the anchors lie within [first - 1h, last sample]
    if (id > nsamp) {
        Op w; w.op = "fsr"; w.sig = 1; w.sample_id = first + nsamp; w.n = (uint32_t) std::min<int64_t>(id - nsamp + 1, 3000); w.pat.kind = "small"; w.pat.seed = t.raw(); w.poff = nsamp;
        p.ops.push_back(w);
    }
    mj::Value c = mj::Value::object();
    c.set("program", program_to_json(p));
    c.set("qseed", (long long) t.raw());
    return mj::dump(c);
}

CaseOutcome prop_execute(const std::string & case_json) {
    CaseOutcome oc;
    mj::Value c = mj::parse(case_json);
    Program p = program_from_json(c.at("program"));
    uint64_t qseed = (uint64_t) c.get_int("qseed", 0);
    vfs::reset();
    Model m;
    const char * path = "c12.jls";
    ExecResult er = run_program(p, path, m, true);
    if (!er.err.empty()) { oc.fail("write", er.err); vfs::reset(); return oc; }
    if (er.close_rc) { oc.fail("write", strf("close returned %d", er.close_rc)); vfs::reset(); return oc; }
    Reader rd;
    int32_t rc = rd.open(path);
    if (rc) { oc.fail("open", strf("jls_rd_open returned %d %s", rc, ec_name(rc))); vfs::reset(); return oc; }
    bool outside = false;
    for (auto & kv : m.sigs) {
        const SigM & s = kv.second;
        int sig = kv.first;
        int64_t off = s.has_data ? s.first_id : 0;
        std::vector<int64_t> X, Y;   // zero-based ids, utc
        for (auto & u : s.utcs) { X.push_back(u.id - off); Y.push_back(u.utc); }
        size_t n = X.size();
        oc.tags.push_back(n == 0 ? "anchors:0" : n == 1 ? "anchors:1" : n < 100 ? "anchors:<100" : n < 1000 ? "anchors:<1000" : "anchors:>=1000");
        // (1) full iteration and iteration from selected ids
        std::vector<int64_t> starts = {INT64_MIN / 4};
        for (size_t k = 0; k < n; k += (n > 200 ? n / 60 + 1 : 1)) { starts.push_back(X[k]); starts.push_back(X[k] + 1); starts.push_back(X[k] - 1); }
        if (n) { starts.push_back(X.back()); starts.push_back(X.back() + 1); }
        for (int64_t st : starts) {
            UtcCollect uc;
            rc = jls_rd_utc(rd.rd, (uint16_t) sig, st, utc_cbk, &uc);
            if (rc) { oc.fail("utc_iterate", strf("jls_rd_utc(sig %d, from %lld) returned %d %s", sig, (long long) st, rc, ec_name(rc))); break; }
            size_t first_ge = 0;
            while (first_ge < n && X[first_ge] < st) ++first_ge;
            if (uc.v.size() != n - first_ge) {
                oc.fail("utc_iterate", strf("jls_rd_utc(sig %d, from %lld): %zu pairs returned, %zu pairs have sample id >= start (%zu written)", sig, (long long) st, uc.v.size(), n - first_ge, n));
                break;
            }
            for (size_t k = 0; k < uc.v.size(); ++k) {
                if (uc.v[k].id != X[first_ge + k] || uc.v[k].utc != Y[first_ge + k]) {
                    oc.fail("utc_fields", strf("jls_rd_utc(sig %d, from %lld) pair %zu: (%lld, %lld), written (%lld, %lld)", sig, (long long) st, k, (long long) uc.v[k].id, (long long) uc.v[k].utc,
                                               (long long) X[first_ge + k], (long long) Y[first_ge + k]));
                    break;
                }
            }
            if (!oc.ok) break;
        }
        if (!oc.ok) break;
        // (2) conversions
        int64_t ts = 0;
        rc = jls_rd_sample_id_to_timestamp(rd.rd, (uint16_t) sig, 0, &ts);
        if (n == 0) {
            if (rc == 0) oc.fail("convert_empty", "sample_id_to_timestamp succeeded although the signal has no UTC entries");
            continue;
        }
        double rate = (double) s.def.rate;
        std::vector<int64_t> q;
        int64_t span = n > 1 ? X.back() - X.front() : (int64_t) s.def.rate * 10;
        if (span < 10) span = 10;
        for (size_t k = 0; k < n; k += (n > 300 ? n / 100 + 1 : 1)) {
            q.push_back(X[k]); q.push_back(X[k] + 1); q.push_back(X[k] - 1);
            if (k + 1 < n) q.push_back(X[k] + (X[k + 1] - X[k]) / 2);
        }
        q.push_back(X.back()); q.push_back(X.front());
        for (int k = 0; k < 6; ++k) {
            uint64_t r = mix64(qseed, (uint64_t) k);
            q.push_back(X.front() - (int64_t) (r % (uint64_t) span) - 1);   // before the first anchor (within one table span)
            q.push_back(X.back() + (int64_t) ((r >> 20) % (uint64_t) span) + 1);
        }
        std::sort(q.begin(), q.end());
        int64_t prev_t = INT64_MIN; int64_t prev_q = 0;
        for (int64_t x0 : q) {
            rc = jls_rd_sample_id_to_timestamp(rd.rd, (uint16_t) sig, x0, &ts);
            if (rc) { oc.fail("convert", strf("jls_rd_sample_id_to_timestamp(%lld) returned %d", (long long) x0, rc)); break; }
            long double want;
            ref_interp(X, Y, x0, (double) TICKS / rate, true, want);
            if (fabsl((long double) ts - want) > 1.0L + 1e-14L * fabsl(want - (long double) Y[0])) {
                oc.fail("convert_accuracy", strf("sample id %lld -> %lld, exact linear inter/extrapolation gives %.3Lf (%zu anchors, rate %u)", (long long) x0, (long long) ts, want, n, s.def.rate));
                break;
            }
            for (size_t k = 0; k < n && n > 1; ++k) if (X[k] == x0 && ts != Y[k]) { oc.fail("convert_anchor", strf("anchor %zu: sample id %lld -> %lld, stored utc %lld", k, (long long) x0, (long long) ts, (long long) Y[k])); break; }
            if (n == 1 && x0 == X[0] && ts != Y[0]) oc.fail("convert_anchor", strf("single anchor: sample id %lld -> %lld, stored %lld", (long long) x0, (long long) ts, (long long) Y[0]));
            if (!oc.ok) break;
            if (ts < prev_t) { oc.fail("convert_monotone", strf("sample ids %lld < %lld map to times %lld > %lld", (long long) prev_q, (long long) x0, (long long) prev_t, (long long) ts)); break; }
            prev_t = ts; prev_q = x0;
            int64_t back = 0;
            rc = jls_rd_timestamp_to_sample_id(rd.rd, (uint16_t) sig, ts, &back);
            if (rc) { oc.fail("convert", strf("jls_rd_timestamp_to_sample_id(%lld) returned %d", (long long) ts, rc)); break; }
            if (llabs(back - x0) > 1) { oc.fail("convert_inverse", strf("sample id %lld -> time %lld -> sample id %lld (more than one sample off; %zu anchors, rate %u)", (long long) x0, (long long) ts, (long long) back, n, s.def.rate)); break; }
            if (x0 < X.front() || x0 > X.back()) outside = true;
        }
        if (!oc.ok) break;
        oc.nontrivial = n >= 2 && (outside || n >= 1000);
    }
    rd.close();
    vfs::reset();
    return oc;
}
