// C09 — gaps read back as fill values, overlapping writes keep the first-written samples.
#include "../gen_common.h"

const char * prop_id() { return "C09"; }
const char * prop_rule() {
    return "case = one or two FSR signals (all 15 data types) written by a script in which every write is contiguous, leaves a gap "
           "(g in {1,7,8,spd-1,spd,spd+1,3*spd, fill-buffer capacity +-1, several fill buffers}) or overlaps the stored samples "
           "(partial, total, odd/even, every bit/nibble phase for u1/u4/i4), positioned around block boundaries, with different data "
           "in the overlapping part; oracle = model with fill (NaN/0) and keep-first, length, whole-signal and edge reads, and for "
           "float signals the stored level-1 summaries over windows containing gap samples; non-trivial = >= 1 gap or overlap that is "
           "not block aligned; distinct = case hash";
}

namespace {
// capacity (in samples) of the writer's internal fill buffer per width: sizeof(uint64_t[4096]) bytes
int64_t fill_capacity(const DType & dt) { return (32768LL * 8) / dt.bits; }
}

std::string prop_generate(Tape & t, int size) {
    Program p;
    p.ops.push_back(gen_source(t, 1));
    int nsig = t.chance(1, 4) ? 2 : 1;
    struct Plan { int id; const DType * dt; StoredDef sd; int64_t next; int64_t first; int64_t count; };
    std::vector<Plan> plans;
    for (int s = 0; s < nsig; ++s) {
        Plan pl;
        pl.id = s == 0 ? (int) t.pick(std::vector<int>{1, 2, 255, 77}) : 3;
        pl.dt = &DTYPES[t.below(N_DTYPES)];
        Op def = gen_signal(t, pl.id, 1, *pl.dt, (int) t.weighted({6, 3, 0, 1}));
        pl.sd = predict_stored(def, *pl.dt);
        p.ops.push_back(def);
        pl.first = gen_first_id(t);
        if (pl.first > (1LL << 59)) pl.first = (1LL << 59);
        pl.next = pl.first;
        pl.count = 0;
        plans.push_back(pl);
    }
    int nwrites = (int) t.range(2, 4 + size / 8);
    int64_t budget = 3000 + (int64_t) size * 600;
    bool big_gap_used = false;
    for (int w = 0; w < nwrites && budget > 0; ++w) {
        Plan & pl = plans[t.below((uint32_t) plans.size())];
        int64_t spd = pl.sd.spd;
        Op o; o.op = "fsr"; o.sig = pl.id;
        // length of this write
        int64_t n;
        switch (t.weighted({3, 3, 3, 2})) {
            case 0: n = t.range(1, 9); break;
            case 1: n = spd + t.range(-1, 1); break;
            case 2: n = t.range(1, spd * 3); break;
            default: { int64_t in_blk = (pl.next - pl.first) % spd; n = spd - in_blk + t.range(-1, 1); break; }  // up to the next block edge
        }
        if (n < 1) n = 1;
        int64_t id = pl.next;
        size_t mode = pl.count == 0 ? 0 : t.weighted({3, 4, 4});
        if (mode == 1) {            // gap
            int64_t g;
            switch (t.weighted({4, 3, 3, 1, 1})) {
                case 0: g = t.pick(std::vector<int64_t>{1, 7, 8, 9, 2, 3}); break;
                case 1: g = spd + t.range(-1, 1); break;
                case 2: g = t.range(1, spd * 3); break;
                case 3: g = big_gap_used ? 5 : fill_capacity(*pl.dt) + t.range(-1, 1); big_gap_used = true; break;
                default: g = big_gap_used ? 3 : fill_capacity(*pl.dt) * 2 + t.range(0, 20); big_gap_used = true; break;
            }
            if (g < 1) g = 1;
            if (pl.dt->bits >= 16 && g > 70000) g = 70000;   // keep the file small; still several times the real buffer capacity for wide types
            id = pl.next + g;
            budget -= g / 4;
        } else if (mode == 2) {     // overlap
            int64_t o_max = pl.count;
            int64_t ov;
            switch (t.weighted({4, 3, 2, 2})) {
                case 0: ov = t.range(1, 9); break;
                case 1: ov = t.range(1, spd + 1); break;
                case 2: ov = n + t.range(0, 3); break;        // total overlap (write entirely inside stored samples)
                default: ov = t.range(1, o_max); break;
            }
            if (ov > o_max) ov = o_max;
            if (ov < 1) ov = 1;
            id = pl.next - ov;
        }
        o.sample_id = id; o.n = (uint32_t) n;
        o.pat = gen_pattern(t, *pl.dt, {"random", "ramp", "small", "alt", "blocks", "const"}, pl.sd.spd);
        o.poff = id - pl.first;
        o.junk = t.chance(1, 3);
        p.ops.push_back(o);
        int64_t end = id + n;
        if (end > pl.next) { pl.count += end - pl.next; pl.next = end; }
        budget -= n;
    }
    mj::Value c = mj::Value::object();
    c.set("program", program_to_json(p));
    c.set("rseed", (long long) t.raw());
    return mj::dump(c);
}

CaseOutcome prop_execute(const std::string & case_json) {
    CaseOutcome oc;
    mj::Value c = mj::parse(case_json);
    Program p = program_from_json(c.at("program"));
    uint64_t rseed = (uint64_t) c.get_int("rseed", 0);
    vfs::reset();
    Model m;
    const char * path = "c09.jls";
    // classify the script (against the model as it evolves)
    bool unaligned_event = false; int gaps = 0, overlaps = 0;
    {
        std::map<int, std::pair<int64_t, int64_t>> st;  // sig -> (first, next)
        for (auto & o : p.ops) if (o.op == "fsr" && o.n) {
            auto it = st.find(o.sig);
            if (it == st.end()) { st[o.sig] = {o.sample_id, o.sample_id + o.n}; continue; }
            int64_t next = it->second.second;
            if (o.sample_id > next) { ++gaps; oc.tags.push_back("gap"); }
            if (o.sample_id < next) { ++overlaps; oc.tags.push_back(o.sample_id + o.n <= next ? "overlap_total" : "overlap_partial"); }
            if (o.sample_id + (int64_t) o.n > next) it->second.second = o.sample_id + o.n;
        }
    }
    ExecResult er = run_program(p, path, m, true);
    if (!er.err.empty()) { oc.fail("write", er.err); vfs::reset(); return oc; }
    if (er.close_rc) { oc.fail("write", strf("close returned %d", er.close_rc)); vfs::reset(); return oc; }
    Reader rd;
    int32_t rc = rd.open(path);
    if (rc) { oc.fail("open", strf("jls_rd_open returned %d %s", rc, ec_name(rc))); vfs::reset(); return oc; }
    for (auto & kv : m.sigs) {
        const SigM & s = kv.second;
        const DType & dt = *s.dt;
        oc.tags.push_back(std::string("dtype:") + dt.name);
        struct jls_signal_def_s sd = {};
        jls_rd_signal(rd.rd, (uint16_t) kv.first, &sd);
        int64_t spd = sd.samples_per_data ? sd.samples_per_data : 1, sdf = sd.sample_decimate_factor ? sd.sample_decimate_factor : 1;
        int64_t len = -1;
        rc = jls_rd_fsr_length(rd.rd, (uint16_t) kv.first, &len);
        if (rc || len != s.length()) {
            oc.fail("length", strf("signal %d %s: length rc=%d %lld, model (last id + 1 - first id) = %lld", kv.first, dt.name, rc, (long long) len, (long long) s.length()));
            break;
        }
        // events not aligned to blocks?
        for (size_t k = 1; k < s.is_gap.size(); ++k) if (s.is_gap[k] != s.is_gap[k - 1] && (k % (size_t) spd)) unaligned_event = true;
        if (overlaps) unaligned_event = true;
        if (len == 0) continue;
        // whole signal in a seeded partition of reads
        int64_t pos = 0; uint64_t rs = rseed;
        int guard = 0;
        while (pos < len && oc.ok) {
            rs = mix64(rs, (uint64_t) pos);
            int64_t n;
            switch (rs % 4) { case 0: n = len - pos; break; case 1: n = (int64_t) ((rs >> 8) % (uint64_t) (spd * 2)) + 1; break; case 2: n = (int64_t) ((rs >> 8) % 17) + 1; break; default: n = spd; }
            if (++guard > 200) n = len - pos;
            if (n > len - pos) n = len - pos;
            std::vector<uint8_t> got;
            rc = read_window(rd.rd, kv.first, dt, pos, n, got);
            if (rc) { oc.fail("read", strf("jls_rd_fsr(sig %d %s, %lld, %lld) returned %d %s", kv.first, dt.name, (long long) pos, (long long) n, rc, ec_name(rc))); break; }
            for (int64_t k = 0; k < n; ++k) {
                uint64_t g = window_sample(dt, got, k), w = s.samples.get(pos + k);
                bool gap = s.is_gap[(size_t) (pos + k)] != 0;
                bool ok;
                if (gap && dt.kind == 'f') ok = std::isnan(sample_to_double(dt, g));
                else ok = (g == w);
                if (!ok) {
                    oc.fail(gap ? "gap_fill" : "samples", strf("signal %d %s (spd %lld, first id %lld): sample %lld (%s) reads 0x%llx, expected %s0x%llx", kv.first, dt.name, (long long) spd,
                                                             (long long) s.first_id, (long long) (pos + k), gap ? "gap" : "written", (unsigned long long) g, gap && dt.kind == 'f' ? "NaN, model " : "", (unsigned long long) w));
                    break;
                }
            }
            pos += n;
        }
        if (!oc.ok) break;
        // summaries treat gap samples of float signals as absent: stored level-1 entries via aligned requests
        if (dt.kind == 'f' && len >= 25 * sdf) {
            int64_t count = len / sdf;
            std::vector<double> out((size_t) count * 4);
            rc = jls_rd_fsr_statistics(rd.rd, (uint16_t) kv.first, 0, sdf, out.data(), count);
            if (rc == JLS_ERROR_UNSUPPORTED_FILE && dt.bits == 64) { oc.tags.push_back("f64_stats_unsupported"); continue; }  // the reader cannot compute raw-sample statistics of 64-bit types (its documented limitation)
            if (rc) { oc.fail("summary", strf("jls_rd_fsr_statistics(sig %d, 0, %lld, %lld) returned %d", kv.first, (long long) sdf, (long long) count, rc)); break; }
            // the final requested entry is recomputed by the reader from raw samples (not a stored summary): not judged here
            for (int64_t e = 0; e + 1 < count && oc.ok; ++e) {
                long double sum = 0; int64_t nfin = 0; double mn = INFINITY, mx = -INFINITY;
                for (int64_t k = e * sdf; k < (e + 1) * sdf; ++k) {
                    double v = sample_to_double(dt, s.samples.get(k));
                    if (std::isfinite(v)) { sum += v; ++nfin; if (v < mn) mn = v; if (v > mx) mx = v; }
                }
                double mean = out[(size_t) e * 4 + 0], gmn = out[(size_t) e * 4 + 2], gmx = out[(size_t) e * 4 + 3];
                if (nfin == 0) {
                    if (!std::isnan(mean)) oc.fail("summary_gap", strf("signal %d %s entry %lld covers only gap samples but mean=%g (expected NaN)", kv.first, dt.name, (long long) e, mean));
                } else {
                    double want = (double) (sum / nfin);
                    double A = std::max(fabs(mn), fabs(mx));
                    double tol = (dt.bits == 32 ? 4e-7 : 1e-13) * (A + 1e-30) * 4;
                    if (!(fabs(mean - want) <= tol) || !((float) gmn == (float) mn) || !((float) gmx == (float) mx)) {
                        oc.fail("summary_gap", strf("signal %d %s entry %lld (%lld finite of %lld samples): mean=%.9g min=%.9g max=%.9g, finite samples give mean=%.9g min=%.9g max=%.9g",
                                                    kv.first, dt.name, (long long) e, (long long) nfin, (long long) sdf, mean, gmn, gmx, want, mn, mx));
                    }
                    double gsd1 = out[(size_t) e * 4 + 1];
                    if (oc.ok && !(gsd1 >= 0 && gsd1 <= (mx - mn) + tol)) {
                        oc.fail("summary_gap_std", strf("signal %d %s entry %lld (%lld finite of %lld samples, finite range %.9g..%.9g): std=%.9g (expected a finite value within [0, max-min])",
                                                        kv.first, dt.name, (long long) e, (long long) nfin, (long long) sdf, mn, mx, gsd1));
                    }
                    if (nfin < sdf) oc.tags.push_back("summary_entry_with_gap");
                }
            }
        }
        if (!oc.ok) break;
        // ... and the stored entries of the upper levels (each covers sdf * sumdf^(L-1) samples): aligned requests with
        // increment = entry size and >= 25 entries are served from that level.  An entry whose first child is all-gap must still
        // report the min/max/mean of its finite samples.
        if (dt.kind == 'f' && dt.bits == 32) {
            int64_t sumdf = sd.summary_decimate_factor ? sd.summary_decimate_factor : 1;
            int64_t step = sdf;
            for (int L = 2; L <= 4 && oc.ok; ++L) {
                step *= sumdf;
                int64_t count = len / step;
                if (count < 26) break;
                if (count > 4000) count = 4000;
                std::vector<double> out((size_t) count * 4);
                rc = jls_rd_fsr_statistics(rd.rd, (uint16_t) kv.first, 0, step, out.data(), count);
                if (rc) { oc.fail("summary", strf("jls_rd_fsr_statistics(sig %d, 0, %lld, %lld) returned %d", kv.first, (long long) step, (long long) count, rc)); break; }
                bool with_gap = false;
                for (int64_t e = 0; e + 1 < count && oc.ok; ++e) {
                    long double sum = 0; int64_t nfin = 0; double mn = INFINITY, mx = -INFINITY;
                    for (int64_t k = e * step; k < (e + 1) * step; ++k) {
                        double v = sample_to_double(dt, s.samples.get(k));
                        if (std::isfinite(v)) { sum += v; ++nfin; if (v < mn) mn = v; if (v > mx) mx = v; }
                    }
                    double mean = out[(size_t) e * 4 + 0], gmn = out[(size_t) e * 4 + 2], gmx = out[(size_t) e * 4 + 3];
                    if (nfin == 0) {
                        if (!std::isnan(mean)) oc.fail("summary_gap", strf("signal %d %s level-%d entry %lld covers only gap samples but mean=%g (expected NaN)", kv.first, dt.name, L, (long long) e, mean));
                        continue;
                    }
                    // The mean of a level >= 2 entry is the plain average of its children's means (children with fewer finite
                    // samples weigh the same), so only its range is judged: within [min, max] of the finite samples.
                    double A = std::max(fabs(mn), fabs(mx));
                    double tol = 4e-7 * (A + 1e-30) * 8;
                    bool mean_ok = mean >= mn - tol && mean <= mx + tol;
                    if (!mean_ok || !((float) gmn == (float) mn) || !((float) gmx == (float) mx)) {
                        oc.fail("summary_gap", strf("signal %d %s level-%d entry %lld (samples %lld..%lld, %lld finite): mean=%.9g min=%.9g max=%.9g, the finite samples have min=%.9g max=%.9g",
                                                    kv.first, dt.name, L, (long long) e, (long long) (e * step), (long long) ((e + 1) * step - 1), (long long) nfin, mean, gmn, gmx, mn, mx));
                    }
                    // "gap samples are absent" also for the spread: an entry with finite samples has a finite std, bounded by their range
                    double gsd = out[(size_t) e * 4 + 1];
                    if (oc.ok && nfin >= 1 && !(gsd >= 0 && gsd <= (mx - mn) + tol)) {
                        oc.fail("summary_gap_std", strf("signal %d %s level-%d entry %lld (samples %lld..%lld, %lld finite of %lld, finite range %.9g..%.9g): std=%.9g (expected a finite value within [0, max-min])",
                                                        kv.first, dt.name, L, (long long) e, (long long) (e * step), (long long) ((e + 1) * step - 1), (long long) nfin, (long long) step, mn, mx, gsd));
                    }
                    if (nfin < step) with_gap = true;
                }
                if (with_gap) oc.tags.push_back(strf("level%d_entry_with_gap", L));
            }
        }
        if (!oc.ok) break;
    }
    rd.close();
    oc.nontrivial = (gaps + overlaps) > 0 && unaligned_event;
    vfs::reset();
    return oc;
}
