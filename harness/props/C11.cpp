// C11 — annotations round-trip in order and seeking by timestamp omits nothing.
#include "../gen_common.h"

const char * prop_id() { return "C11"; }
const char * prop_rule() {
    return "case = 1-3 signals (global signal 0, FSR signals with zero/non-zero/negative first sample id) with annotation decimate "
           "factors {2,3,10,default}; per signal a non-decreasing timestamp sequence built from runs of equal timestamps whose "
           "lengths are aimed at index-chunk positions k*df, counts {0,1,df-1,df,df+1,df^2+-1,df^3+1}; all annotation and storage "
           "types, payloads 0 bytes .. > 1 MiB, y incl. NaN; then seeks at every distinct timestamp, midpoints, before first, after "
           "last, and a callback that stops after j items; non-trivial = >= 2 index levels and a run of equal timestamps crossing an "
           "index-chunk edge; distinct = case hash";
}

namespace {
struct SigPlan { int id; int64_t first; uint32_t df; bool fsr; };
}

std::string prop_generate(Tape & t, int size) {
    Program p;
    p.ops.push_back(gen_source(t, 1));
    int nsig = (int) t.weighted({5, 3, 1}) + 1;
    std::vector<SigPlan> plans;
    for (int s = 0; s < nsig; ++s) {
        SigPlan sp;
        bool global = (s == 0) ? t.chance(1, 4) : false;
        if (global) { sp.id = 0; sp.first = 0; sp.df = 100; sp.fsr = false; plans.push_back(sp); continue; }
        sp.id = 1 + s * 7;
        sp.fsr = true;
        const DType & dt = DTYPES[t.below(N_DTYPES)];
        Op def = gen_signal(t, sp.id, 1, dt, DEF_MINIMAL);
        def.annodf = (uint32_t) t.pick(std::vector<uint32_t>{2, 10, 12, 10, 0, 3, 16});
        sp.df = def.annodf ? std::max<uint32_t>(def.annodf, 10) : 100;   // factors below 10 are raised to the minimum by the library
        p.ops.push_back(def);
        // first sample id: the reader reports annotation timestamps relative to it
        sp.first = t.chance(1, 3) ? 0 : gen_first_id(t);
        if (sp.first > (1LL << 59)) sp.first = 1LL << 40;
        if (sp.first < -(1LL << 59)) sp.first = -(1LL << 40);
        if (t.chance(3, 4)) {
            Op w; w.op = "fsr"; w.sig = sp.id; w.sample_id = sp.first; w.n = (uint32_t) t.range(1, 50); w.pat.kind = "small"; w.pat.seed = t.raw(); w.poff = 0;
            p.ops.push_back(w);
        } else sp.first = 0;   // no samples: offset 0
        plans.push_back(sp);
    }
    // annotations per signal
    int big_left = size >= 40 ? 1 : 0;
    std::vector<std::vector<Op>> per_sig;
    for (auto & sp : plans) {
        int64_t df = sp.df;
        int64_t count;
        switch (t.weighted({1, 2, 3, 3, 3, 2})) {
            case 0: count = 0; break;
            case 1: count = 1; break;
            case 2: count = df + t.range(-1, 1); break;
            case 3: count = df * df + t.range(-1, 1); break;
            case 4: count = t.range(1, df * df * 2); break;
            default: count = df * df * df + 1; break;
        }
        if (df >= 10 && count > 1100) count = 1001 + t.range(0, 20);
        if (df >= 100 && count > 300) count = 100 + t.range(-1, 120);
        int64_t budget = 60 + (int64_t) size * 12;
        if (count > budget) count = budget;
        std::vector<Op> ops;
        int64_t ts = sp.first + t.range(-5, 5);
        int64_t made = 0;
        while (made < count) {
            // run of equal timestamps; aim run ends at multiples of df
            int64_t run;
            switch (t.weighted({5, 3, 3})) {
                case 0: run = 1; break;
                case 1: run = t.range(2, 5); break;
                default: {
                    // straddles the next index-chunk edge: of the level-1 index (every df entries) or of the level-2 index (every df^2)
                    int64_t unit = t.chance(1, 3) ? df * df : df;
                    int64_t to_edge = unit - (made % unit); run = to_edge + t.range(0, 2); break; }
            }
            if (run > count - made) run = count - made;
            for (int64_t r = 0; r < run; ++r) {
                Op a; a.op = "anno"; a.sig = sp.id; a.ts = ts;
                a.y = t.chance(1, 6) ? NAN : (float) t.range(-100, 100) * 0.5f;
                a.atype = (int) t.range(0, 3);
                a.group = (int) t.pick(std::vector<int>{0, 0, 1, 255, 7});
                a.stor = (int) t.range(1, 3);
                bool text = a.stor != 1;
                if (big_left && t.chance(1, 40)) { a.data.gen = true; a.data.seed = (uint64_t) t.raw() << 1; a.data.n = (uint32_t) ((1 << 20) + t.range(-20, 20)); a.data.text = text; --big_left; }
                else if (t.chance(1, 4)) { a.data.gen = true; a.data.seed = (uint64_t) t.raw() << 1; a.data.n = (uint32_t) t.range(0, 200); a.data.text = text; }
                else { int n = (int) t.range(text ? 0 : 0, 6); for (int k = 0; k < n; ++k) a.data.lit.push_back(text ? (uint8_t) ('a' + (made + k) % 26) : (uint8_t) t.range(0, 255)); }
                ops.push_back(a);
                ++made;
            }
            ts += t.pick(std::vector<int64_t>{1, 1, 2, 10, 1000, 3});
        }
        per_sig.push_back(ops);
    }
    // interleave the per-signal sequences (order within a signal is preserved)
    std::vector<size_t> pos(per_sig.size(), 0);
    while (true) {
        std::vector<size_t> live;
        for (size_t k = 0; k < per_sig.size(); ++k) if (pos[k] < per_sig[k].size()) live.push_back(k);
        if (live.empty()) break;
        size_t k = live[t.below((uint32_t) live.size())];
        int64_t burst = t.range(1, 6);
        while (burst-- > 0 && pos[k] < per_sig[k].size()) p.ops.push_back(per_sig[k][pos[k]++]);
    }
    mj::Value c = mj::Value::object();
    c.set("program", program_to_json(p));
    c.set("stop_after", (long long) t.range(1, 7));
    return mj::dump(c);
}

CaseOutcome prop_execute(const std::string & case_json) {
    CaseOutcome oc;
    mj::Value c = mj::parse(case_json);
    Program p = program_from_json(c.at("program"));
    int stop_after = (int) c.get_int("stop_after", 1);
    vfs::reset();
    Model m;
    const char * path = "c11.jls";
    ExecResult er = run_program(p, path, m, true);
    if (!er.err.empty()) { oc.fail("write", er.err); vfs::reset(); return oc; }
    if (er.close_rc) { oc.fail("write", strf("close returned %d", er.close_rc)); vfs::reset(); return oc; }
    Reader rd;
    int32_t rc = rd.open(path);
    if (rc) { oc.fail("open", strf("jls_rd_open returned %d %s", rc, ec_name(rc))); vfs::reset(); return oc; }

    std::vector<int> ids = {0};
    for (auto & kv : m.sigs) ids.push_back(kv.first);
    bool deep = false, straddle = false, straddle2 = false;
    for (int id : ids) {
        const std::vector<AnnoM> & W = (id == 0) ? m.anno0 : m.sigs[id].annos;
        int64_t off = 0; uint32_t df = 100;
        if (id != 0) {
            const SigM & s = m.sigs[id];
            off = s.has_data ? s.first_id : 0;
            struct jls_signal_def_s sd = {};
            jls_rd_signal(rd.rd, (uint16_t) id, &sd);
            df = sd.annotation_decimate_factor ? sd.annotation_decimate_factor : 100;
        }
        if (W.size() > (size_t) df) {
            if (W.size() > (size_t) df * df) deep = true; else if (W.size() >= 2 * (size_t) df) deep = true;
            for (size_t k = df; k < W.size(); k += df) if (W[k].ts == W[k - 1].ts) straddle = true;
            for (size_t k = (size_t) df * df; k < W.size(); k += (size_t) df * df) if (W[k].ts == W[k - 1].ts) straddle2 = true;
        }
        oc.tags.push_back(strf("count:%s", W.empty() ? "0" : W.size() <= df ? "<=df" : W.size() <= (size_t) df * df ? "<=df^2" : ">df^2"));
        // (1) full iteration
        AnnoCollect all;
        rc = jls_rd_annotations(rd.rd, (uint16_t) id, INT64_MIN / 4, anno_cbk, &all);
        if (rc) { oc.fail("iterate", strf("jls_rd_annotations(sig %d, from the beginning) returned %d %s", id, rc, ec_name(rc))); break; }
        if (all.v.size() != W.size()) { oc.fail("iterate", strf("signal %d: %zu annotations returned, %zu written", id, all.v.size(), W.size())); break; }
        for (size_t k = 0; k < W.size(); ++k) {
            if (!anno_equal(all.v[k], W[k], off)) { oc.fail("fields", strf("signal %d annotation %zu: read %s, written %s (timestamps are reported relative to first sample id %lld)", id, k, anno_str(all.v[k]).c_str(), anno_str(W[k]).c_str(), (long long) off)); break; }
        }
        if (!oc.ok) break;
        if (W.empty()) continue;
        // (2) seeks
        std::vector<int64_t> seeks;
        seeks.push_back(W.front().ts - off - 10);
        seeks.push_back(W.back().ts - off + 10);
        seeks.push_back(INT64_MIN); seeks.push_back(INT64_MAX);   // "any t": the shift by the first sample id must not wrap
        for (size_t k = 0; k < W.size(); ++k) {
            if (k == 0 || W[k].ts != W[k - 1].ts) {
                seeks.push_back(W[k].ts - off);
                if (k > 0 && W[k].ts - W[k - 1].ts > 1) seeks.push_back(W[k].ts - off - 1);
            }
        }
        // thin out for long lists, but keep every timestamp that sits at an index-chunk edge
        if (seeks.size() > 400) {
            std::vector<int64_t> keep(seeks.begin(), seeks.begin() + 4);
            for (size_t k = df; k < W.size(); k += df) { keep.push_back(W[k].ts - off); keep.push_back(W[k - 1].ts - off); }
            for (size_t k = 4; k < seeks.size(); k += seeks.size() / 200 + 1) keep.push_back(seeks[k]);
            seeks.swap(keep);
        }
        for (int64_t ts : seeks) {
            AnnoCollect ac;
            rc = jls_rd_annotations(rd.rd, (uint16_t) id, ts, anno_cbk, &ac);
            if (rc) { oc.fail("seek", strf("jls_rd_annotations(sig %d, t=%lld) returned %d %s", id, (long long) ts, rc, ec_name(rc))); break; }
            // must be a contiguous tail of W
            if (ac.v.size() > W.size()) { oc.fail("seek", strf("signal %d t=%lld: %zu items returned, only %zu exist", id, (long long) ts, ac.v.size(), W.size())); break; }
            size_t start = W.size() - ac.v.size();
            bool tail_ok = true;
            for (size_t k = 0; k < ac.v.size(); ++k) if (!anno_equal(ac.v[k], W[start + k], off)) { tail_ok = false; break; }
            if (!tail_ok) { oc.fail("seek_tail", strf("signal %d t=%lld: the %zu returned items are not the last %zu written annotations", id, (long long) ts, ac.v.size(), ac.v.size())); break; }
            size_t first_ge = 0;
            while (first_ge < W.size() && W[first_ge].ts - off < ts) ++first_ge;
            if (start > first_ge) {
                oc.fail("seek_omits", strf("signal %d (decimate %u, %zu annotations) t=%lld: iteration starts at annotation %zu (ts %lld) but annotation %zu already has ts %lld >= t", id, df, W.size(),
                                           (long long) ts, start, start < W.size() ? (long long) (W[start].ts - off) : -1LL, first_ge, (long long) (W[first_ge].ts - off)));
                break;
            }
            if (first_ge - start > 1) {
                oc.fail("seek_early", strf("signal %d t=%lld: %zu annotations earlier than t were delivered (at most one allowed)", id, (long long) ts, first_ge - start));
                break;
            }
        }
        if (!oc.ok) break;
        // (3) stop request
        {
            AnnoCollect ac; ac.stop_after = stop_after;
            rc = jls_rd_annotations(rd.rd, (uint16_t) id, INT64_MIN / 4, anno_cbk, &ac);
            int want = (int) std::min<size_t>((size_t) stop_after, W.size());
            if (rc || ac.calls != want) { oc.fail("stop", strf("signal %d: callback asked to stop after %d items: rc=%d, called %d times", id, stop_after, rc, ac.calls)); break; }
        }
    }
    rd.close();
    oc.nontrivial = deep && straddle;
    if (straddle) oc.tags.push_back("run_straddles_index_chunk");
    if (straddle2) oc.tags.push_back("run_straddles_level2_index_chunk");
    vfs::reset();
    return oc;
}
