// C15 — omitting level-0 data never changes length or summaries.
#include "../gen_common.h"
#include "../decoder.h"
#include "../stats_oracle.h"

const char * prop_id() { return "C15"; }
const char * prop_rule() {
    return "two-run relational cases: the same sample stream (any data type, contiguous, cut into generated writes) is written once plain "
           "and once with jls_wr_fsr_omit_data toggled at generated positions; both files are decoded independently: equal length, every "
           "SUMMARY payload at every level byte-identical, INDEX headers identical, level-1 entries 0 only where the DATA chunk is missing, "
           "stored blocks bit-identical, omitted blocks read back with rc 0 and the right number of samples, first block stored. For <= 8-bit "
           "types the stream is built from constant (0, all-ones, other) and non-constant blocks and every read (windows crossing "
           "stored/omitted edges at all bit phases) must equal the model bit-for-bit; summaries as C02. non-trivial = >= 1 block actually "
           "omitted and a read touching it; distinct = case hash";
}

std::string prop_generate(Tape & t, int size) {
    gen_allow_q() = true;   // integer signals may carry a fixed-point exponent in their data type
    Program p;
    p.ops.push_back(gen_source(t, 1));
    bool small = t.chance(1, 2);   // <= 8-bit class
    const DType * dt;
    if (small) { static const char * S[] = {"u1", "u4", "u8", "i4", "i8"}; dt = dtype_by_name(S[t.below(5)]); }
    else dt = &DTYPES[t.below(N_DTYPES)];
    Op def = gen_signal(t, 1, 1, *dt, (int) t.weighted({6, 3, 0, 1}));
    StoredDef sd = predict_stored(def, *dt);
    p.ops.push_back(def);
    int64_t first = gen_first_id(t);
    if (first > (1LL << 58)) first = 1LL << 44;
    if (first < -(1LL << 58)) first = -(1LL << 44);
    int64_t spd = sd.spd;
    int64_t nblocks = t.range(1, 6 + size / 4);
    int64_t total = nblocks * spd + (t.chance(1, 2) ? 0 : t.range(-spd + 1, spd - 1));
    if (total < 1) total = 1;
    if (total > 40000) total = 40000;
    // one case in ten sits at the top of the sample-id range (the writer accepts any int64 id): the last sample id is
    // INT64_MAX - 2 blocks - k for k around 0, 2^31 and 2^32 (the reader used INT64_MAX - INT32_MAX as an in-band marker for omitted blocks)
    if (t.chance(1, 10)) first = INT64_MAX - total - 2 * spd - 8 - t.pick(std::vector<int64_t>{0, 1, 1000, (1LL << 31) - 5, 1LL << 31, 1LL << 32});   // (the writer refuses ids within one block of INT64_MAX)
    Pattern pat = small ? gen_pattern(t, *dt, {"blocks", "blocks", "spike", "spike2", "spike2", "const", "small"}, sd.spd) : gen_pattern(t, *dt, {"random", "ramp", "blocks", "const", "small"}, sd.spd);
    if (pat.kind == "blocks" || pat.kind == "spike" || pat.kind == "spike2") pat.p1 = spd;            // constant runs aligned with the storage blocks
    if (small && t.chance(1, 3)) pat.p1 = spd * 2;
    std::vector<uint32_t> parts = gen_partition(t, total, sd.spd, 20);
    // <= 8-bit class, one case in three: a companion signal 2 with the same definition, first sample id and block grid but other
    // constants, written interleaved.  The reads then alternate between the two signals on one reader, so that whatever the reader
    // caches per level-1 chunk (index, summary) is keyed by equal timestamps of two different signals (seeded/C15d).
    bool companion = small && t.chance(1, 3);
    Pattern pat2;
    if (companion) {
        Op def2 = def; def2.id = 2; p.ops.push_back(def2);
        pat2 = gen_pattern(t, *dt, {"blocks", "blocks", "const", "spike2"}, sd.spd);
        pat2.p1 = spd;
    }
    int64_t written = 0;
    for (auto n : parts) {
        if (t.chance(1, 3)) { Op o; o.op = "omit"; o.sig = 1; o.enable = (int) t.weighted({1, 2}); p.ops.push_back(o); }
        Op o; o.op = "fsr"; o.sig = 1; o.sample_id = first + written; o.n = n; o.pat = pat; o.poff = written; o.junk = t.chance(1, 4);
        p.ops.push_back(o);
        if (companion) { Op o2 = o; o2.sig = 2; o2.pat = pat2; p.ops.push_back(o2); }
        written += n;
    }
    mj::Value c = mj::Value::object();
    c.set("program", program_to_json(p));
    c.set("rseed", (long long) t.raw());
    return mj::dump(c);
}

CaseOutcome prop_execute(const std::string & case_json) {
    CaseOutcome oc;
    mj::Value c = mj::parse(case_json);
    Program p_omit = program_from_json(c.at("program"));
    uint64_t rseed = (uint64_t) c.get_int("rseed", 1);
    Program p_plain = p_omit;
    p_plain.ops.erase(std::remove_if(p_plain.ops.begin(), p_plain.ops.end(), [](const Op & o) { return o.op == "omit"; }), p_plain.ops.end());
    vfs::reset();
    Model m, m2;
    ExecResult e1 = run_program(p_plain, "c15_plain.jls", m, true);
    ExecResult e2 = run_program(p_omit, "c15_omit.jls", m2, true);
    if (!e1.err.empty() || !e2.err.empty() || e1.close_rc || e2.close_rc) { oc.fail("write", e1.err + e2.err); vfs::reset(); return oc; }
    if (m.sigs.empty()) { vfs::reset(); return oc; }
    const SigM & s = m.sigs.begin()->second;
    int sig = m.sigs.begin()->first;
    const DType & dt = *s.dt;
    oc.tags.push_back(std::string("dtype:") + dt.name);
    std::vector<uint8_t> b1 = vfs::get("c15_plain.jls"), b2 = vfs::get("c15_omit.jls");
    dec::File f1 = dec::decode(b1), f2 = dec::decode(b2);
    if (!f1.violations.empty() || !f2.violations.empty()) { oc.fail("conformance", (f1.violations.empty() ? f2.violations[0] : f1.violations[0])); vfs::reset(); return oc; }
    const dec::SignalDef * sd = f2.signal(sig);
    if (!sd) { oc.fail("definition", "signal missing"); vfs::reset(); return oc; }
    int64_t spd = sd->spd;
    bool omit_requested = false;
    for (auto & o : p_omit.ops) if (o.op == "omit" && o.enable) omit_requested = true;

    // ---- (i) relational: summaries and index headers identical between the two runs
    auto & S1 = f1.fsr_summary_payloads[sig]; auto & S2 = f2.fsr_summary_payloads[sig];
    if (S1.size() != S2.size()) oc.fail("summary_levels", strf("plain run has %zu summary levels, omit run %zu", S1.size(), S2.size()));
    for (auto & lv : S1) {
        if (!oc.ok) break;
        auto it = S2.find(lv.first);
        if (it == S2.end() || it->second.size() != lv.second.size()) { oc.fail("summary_chunks", strf("level %d: %zu SUMMARY chunks in the plain run, %zu in the omit run", lv.first, lv.second.size(), it == S2.end() ? 0 : it->second.size())); break; }
        for (size_t k = 0; k < lv.second.size(); ++k) if (lv.second[k] != it->second[k]) {
            size_t d = 0; while (d < lv.second[k].size() && d < it->second[k].size() && lv.second[k][d] == it->second[k][d]) ++d;
            oc.fail("summary_changed", strf("level %d SUMMARY chunk %zu differs between the plain and the omit run (first differing payload byte %zu; %s, spd %lld)", lv.first, k, d, dt.name, (long long) spd));
            break;
        }
    }
    // index: same timestamps / entry counts; level-1 entry 0 <=> no DATA chunk with that timestamp
    std::set<int64_t> omitted_blocks;   // relative block start (samples from first id)
    if (oc.ok) {
        auto & I1 = f1.fsr_index[sig]; auto & I2 = f2.fsr_index[sig];
        auto & T1 = f1.fsr_index_ts[sig]; auto & T2 = f2.fsr_index_ts[sig];
        for (auto & lv : I1) {
            auto it = I2.find(lv.first);
            if (it == I2.end() || it->second.size() != lv.second.size()) { oc.fail("index_chunks", strf("level %d: INDEX chunk count differs", lv.first)); break; }
            for (size_t k = 0; k < lv.second.size() && oc.ok; ++k) {
                if (T1[lv.first][k] != T2[lv.first][k] || lv.second[k].size() != it->second[k].size()) { oc.fail("index_header", strf("level %d INDEX chunk %zu: timestamp/entry count differs between the runs", lv.first, k)); break; }
                if (lv.first != 1) continue;
                for (size_t e = 0; e < lv.second[k].size(); ++e) {
                    int64_t ts = T1[1][k] + (int64_t) e * spd;
                    if (!lv.second[k][e] && dt.bits > 8) { oc.fail("plain_run_omitted", strf("block at %lld is omitted although omission was never requested (%s)", (long long) ts, dt.name)); break; }
                    if (!it->second[k][e]) omitted_blocks.insert(ts - s.first_id);
                }
            }
            if (!oc.ok) break;
        }
    }
    if (oc.ok && dt.bits > 8 && !omit_requested && !omitted_blocks.empty()) oc.fail("omitted_without_request", "a block is omitted although omission was never enabled");
    if (oc.ok && omitted_blocks.count(0)) oc.fail("first_block", "the first block of the signal is omitted");
    // stored blocks identical in both runs (and equal to the model)
    if (oc.ok) {
        std::map<int64_t, const dec::Segment *> seg1;
        for (auto & sg : f1.fsr[sig]) seg1[sg.ts] = &sg;
        for (auto & sg : f2.fsr[sig]) {
            auto it = seg1.find(sg.ts);
            if (it == seg1.end()) { if (dt.bits > 8) { oc.fail("stored_blocks", strf("omit run has a DATA chunk at %lld that the plain run does not have", (long long) sg.ts)); break; } continue; }
            if (it->second->count != sg.count || memcmp(b1.data() + it->second->data_off, b2.data() + sg.data_off, std::min(it->second->data_len, sg.data_len))) { oc.fail("stored_blocks", strf("DATA chunk at %lld differs between the runs", (long long) sg.ts)); break; }
        }
    }
    // ---- reader view
    Reader r1, r2;
    if (oc.ok && (r1.open("c15_plain.jls") || r2.open("c15_omit.jls"))) oc.fail("open", "reader open failed");
    bool touched_omitted = false;
    const bool has_companion = m.sigs.count(2) && m.sigs.at(2).length() == s.length() && dt.bits <= 8;
    long companion_reads = 0;
    if (oc.ok) {
        int64_t l1 = -1, l2 = -1;
        jls_rd_fsr_length(r1.rd, (uint16_t) sig, &l1); jls_rd_fsr_length(r2.rd, (uint16_t) sig, &l2);
        if (l1 != s.length()) oc.fail("length", strf("plain run: reader length %lld, written %lld", (long long) l1, (long long) s.length()));
        else if (l2 != l1) {
            oc.fail("length", strf("length %lld with omission, %lld without (%s, spd %lld, sdf %u)", (long long) l2, (long long) l1, dt.name, (long long) spd, sd->sdf));
            // KF-C15-1: last block omitted on request and partial: length rounded down to a multiple of sample_decimate_factor
            int64_t last_block = ((l1 - 1) / spd) * spd;
            if (dt.bits > 8 && omitted_blocks.count(last_block) && (l1 % spd) != 0 && l2 == (l1 / sd->sdf) * sd->sdf) oc.known = "KF-C15-1";
        }
        // reads: windows anchored at block edges, all phases
        int64_t len = std::min(l1, l2);
        uint64_t rs = rseed;
        for (int q = 0; q < 40 && oc.ok && len > 0; ++q) {
            rs = mix64(rs, (uint64_t) q);
            int64_t blk = (int64_t) ((rs >> 8) % (uint64_t) ((len + spd - 1) / spd));
            int64_t start = blk * spd + (int64_t) ((rs >> 24) % 19) - 9;
            if (q == 0) start = 0;
            if (start < 0) start = 0;
            if (start >= len) start = len - 1;
            int64_t n = (q == 0) ? len : (int64_t) ((rs >> 40) % (uint64_t) (spd * 2 + 2)) + 1;
            if (n > len - start) n = len - start;
            std::vector<uint8_t> g1, g2;
            if (has_companion && (rs & 1)) {
                // the same reader serves the companion signal first (same block grid, other constants)
                std::vector<uint8_t> gc;
                int32_t rcc = read_window(r2.rd, 2, dt, start, n, gc);
                if (rcc) { oc.fail("read", strf("companion signal: read(%lld,%lld) returns %d", (long long) start, (long long) n, rcc)); break; }
                std::vector<uint8_t> wantc = m.sigs.at(2).samples.window(start, n);
                int64_t badc = compare_window(dt, gc, wantc, n);
                if (badc >= 0) { oc.fail("omitted_block_samples", strf("omit run (%s, spd %lld), companion signal 2 read in alternation with signal 1 on one reader: sample %lld reads 0x%llx, written 0x%llx", dt.name, (long long) spd,
                                                                         (long long) (start + badc), (unsigned long long) window_sample(dt, gc, badc), (unsigned long long) window_sample(dt, wantc, badc))); break; }
                ++companion_reads;
            }
            int32_t rc1 = read_window(r1.rd, sig, dt, start, n, g1), rc2 = read_window(r2.rd, sig, dt, start, n, g2);
            if (rc1 || rc2) { oc.fail("read", strf("read(%lld,%lld) returns %d plain / %d with omission", (long long) start, (long long) n, rc1, rc2)); break; }
            std::vector<uint8_t> want = s.samples.window(start, n);
            int64_t bad = compare_window(dt, g1, want, n);
            if (bad >= 0) { oc.fail("samples", strf("plain run (%s): sample %lld reads 0x%llx, written 0x%llx", dt.name, (long long) (start + bad), (unsigned long long) window_sample(dt, g1, bad), (unsigned long long) window_sample(dt, want, bad))); break; }
            for (int64_t k = 0; k < n; ++k) {
                int64_t bstart = ((start + k) / spd) * spd;
                bool om = omitted_blocks.count(bstart) != 0;
                if (om) touched_omitted = true;
                bool exact = !om || dt.bits <= 8;   // automatically omitted constant blocks of <= 8-bit types read back bit-exactly
                if (exact && window_sample(dt, g2, k) != window_sample(dt, want, k)) {
                    oc.fail(om ? "omitted_block_samples" : "stored_block_samples", strf("omit run (%s, spd %lld): sample %lld (%s block) reads 0x%llx, written 0x%llx", dt.name, (long long) spd, (long long) (start + k), om ? "omitted" : "stored",
                                                                                    (unsigned long long) window_sample(dt, g2, k), (unsigned long long) window_sample(dt, want, k)));
                    break;
                }
            }
        }
        // statistics answered purely from stored summaries are identical
        if (oc.ok && summarisable(dt) && len >= 26LL * sd->sdf) {
            int64_t cnt = len / sd->sdf;
            std::vector<double> v1((size_t) cnt * 4), v2((size_t) cnt * 4);
            int32_t rc1 = jls_rd_fsr_statistics(r1.rd, (uint16_t) sig, 0, sd->sdf, v1.data(), cnt), rc2 = jls_rd_fsr_statistics(r2.rd, (uint16_t) sig, 0, sd->sdf, v2.data(), cnt);
            if (rc1 != rc2) oc.fail("statistics", strf("summary-aligned statistics return %d plain / %d with omission", rc1, rc2));
            else if (!rc1) for (int64_t e = 0; e + 1 < cnt; ++e) for (int j = 0; j < 4; ++j) if (dbl_bits(v1[(size_t) e * 4 + j]) != dbl_bits(v2[(size_t) e * 4 + j]) && !(std::isnan(v1[(size_t) e * 4 + j]) && std::isnan(v2[(size_t) e * 4 + j]))) {
                oc.fail("statistics", strf("summary-aligned statistics entry %lld field %d: %.10g plain, %.10g with omission", (long long) e, j, v1[(size_t) e * 4 + j], v2[(size_t) e * 4 + j]));
                e = cnt; break;
            }
        }
    }
    r1.close(); r2.close();
    oc.nontrivial = !omitted_blocks.empty() && touched_omitted;
    if (has_companion) { oc.tags.push_back("companion_signal"); oc.counters.push_back({"companion_reads_interleaved", companion_reads}); }
    oc.tags.push_back(omitted_blocks.empty() ? "omitted:0" : omitted_blocks.size() < 3 ? "omitted:1-2" : "omitted:3+");
    vfs::reset();
    return oc;
}
