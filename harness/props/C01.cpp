// C01 — FSR samples round-trip bit-exactly for every type, chunking and read window.
#include "../gen_common.h"

const char * prop_id() { return "C01"; }
const char * prop_rule() {
    return "case = writer program (1-4 FSR signals over all 15 data types, definition shapes minimal/small/defaults/odd, first sample "
           "ids incl. +-2^31, 2^40, +-2^60, negative; each contiguous stream cut into write calls aimed at block edges, writes of "
           "different signals interleaved) + read script (windows anchored at block boundaries +-{0,1,7,8,9}, at the end, length 1, "
           "whole signal, random; interleaved with length/statistics/annotation/UTC/user-data calls on one reader instance); "
           "non-trivial = >= 2 blocks written and >= 1 read crossing a block boundary or ending at the last sample; distinct = case hash";
}

namespace {

struct ReadOp {
    std::string call;   // fsr | f32 | len | stats | annos | utc | user | sigs
    int sig = 1;
    int anchor = 0;     // 0 zero, 1 block boundary k, 2 end, 3 fraction
    int64_t k = 0;
    int64_t d = 0;      // delta added to the anchor
    int nk = 0;         // 0 exact nv, 1 to end of signal, 2 nv blocks, 3 fraction nv/1000 of the length
    int64_t nv = 1;
};

mj::Value read_json(const ReadOp & r) {
    mj::Value v = mj::Value::object();
    v.set("call", r.call); v.set("sig", r.sig); v.set("a", r.anchor); v.set("k", (long long) r.k); v.set("d", (long long) r.d);
    v.set("nk", r.nk); v.set("nv", (long long) r.nv);
    return v;
}
ReadOp read_from(const mj::Value & v) {
    ReadOp r;
    r.call = v.get_str("call", "fsr"); r.sig = (int) v.get_int("sig", 1); r.anchor = (int) v.get_int("a", 0); r.k = v.get_int("k", 0);
    r.d = v.get_int("d", 0); r.nk = (int) v.get_int("nk", 0); r.nv = v.get_int("nv", 1);
    return r;
}

}  // namespace

std::string prop_generate(Tape & t, int size) {
    gen_allow_q() = true;   // integer signals may carry a fixed-point exponent in their data type
    Program p;
    p.ops.push_back(gen_source(t, 1));
    int nsig = (int) t.weighted({5, 3, 2, 1}) + 1;
    struct SigPlan { int id; const DType * dt; StoredDef sd; int64_t first; int64_t total; std::vector<uint32_t> parts; size_t next = 0; int64_t written = 0; Pattern pat; };
    std::vector<SigPlan> plans;
    int64_t budget = 400 + (int64_t) size * 500;   // samples per case (<= ~50k)
    for (int s = 0; s < nsig; ++s) {
        SigPlan sp;
        sp.id = (int) t.pick(std::vector<int>{1, 2, 3, 5, 17, 255, 128, 64});
        bool dup = false;
        for (auto & q : plans) if (q.id == sp.id) dup = true;
        if (dup) sp.id = 30 + s;
        sp.dt = &DTYPES[t.below(N_DTYPES)];
        int shape = (int) t.weighted({6, 4, 1, 2});
        Op def = gen_signal(t, sp.id, 1, *sp.dt, shape);
        sp.sd = predict_stored(def, *sp.dt);
        p.ops.push_back(def);
        sp.first = gen_first_id(t);
        // stream length: aimed at structure
        int64_t spd = sp.sd.spd, blk_lvl1 = (int64_t) sp.sd.eps * sp.sd.sdf;
        int64_t total;
        switch (t.weighted({2, 3, 4, 3, 1})) {
            case 0: total = t.range(1, sp.sd.sdf + 2); break;                        // shorter than one summary entry
            case 1: total = spd * t.range(1, 3) + t.range(-2, 2); break;             // around block edges
            case 2: total = t.range(1, spd * 6); break;
            case 3: total = blk_lvl1 * t.range(1, 3) + t.range(-spd, spd); break;     // around level-1 summary chunk edges
            default: total = blk_lvl1 * sp.sd.sumdf + t.range(-spd, spd); break;      // reaches level 3
        }
        if (total < 1) total = 1;
        int64_t cap = budget / nsig;
        if (sp.dt->bits >= 32) cap /= 2;
        if (total > cap) total = cap;
        sp.total = total;
        sp.parts = gen_partition(t, total, sp.sd.spd, 24);
        sp.pat = gen_pattern(t, *sp.dt, {"random", "random", "ramp", "blocks", "const", "alt", "extremes", "rawbits", "small", "spike", "spike2"}, sp.sd.spd);
        plans.push_back(sp);
    }
    // interleave the writes
    while (true) {
        std::vector<size_t> live;
        for (size_t k = 0; k < plans.size(); ++k) if (plans[k].next < plans[k].parts.size()) live.push_back(k);
        if (live.empty()) break;
        SigPlan & sp = plans[live[t.below((uint32_t) live.size())]];
        Op o; o.op = "fsr"; o.sig = sp.id; o.sample_id = sp.first + sp.written; o.n = sp.parts[sp.next]; o.pat = sp.pat; o.poff = sp.written;
        o.junk = t.chance(1, 3);
        if (!strcmp(sp.dt->name, "f32")) o.f32api = t.chance(1, 4);
        p.ops.push_back(o);
        sp.written += o.n; ++sp.next;
    }
    // read script
    mj::Value reads = mj::Value::array();
    int nreads = (int) t.range(4, 12 + size / 3);
    for (int k = 0; k < nreads; ++k) {
        ReadOp r;
        const SigPlan & sp = plans[t.below((uint32_t) plans.size())];
        r.sig = sp.id;
        switch (t.weighted({14, 1, 2, 1, 1, 1})) {
            case 0: r.call = (!strcmp(sp.dt->name, "f32") && t.chance(1, 4)) ? "f32" : "fsr"; break;
            case 1: r.call = "len"; break;
            case 2: r.call = "stats"; break;
            case 3: r.call = "annos"; break;
            case 4: r.call = "utc"; break;
            default: r.call = "user"; break;
        }
        r.anchor = (int) t.weighted({2, 6, 3, 3});
        r.k = t.range(0, 40);
        r.d = t.pick(std::vector<int64_t>{0, 0, 1, -1, 7, -7, 8, -8, 9, -9, 3, -3});
        r.nk = (int) t.weighted({5, 3, 2, 2});
        r.nv = r.nk == 0 ? t.pick(std::vector<int64_t>{1, 2, 7, 8, 9, 15, 16, 17, 64, 100}) : r.nk == 2 ? t.range(1, 3) : t.range(1, 1000);
        reads.push(read_json(r));
    }
    mj::Value c = mj::Value::object();
    c.set("program", program_to_json(p));
    c.set("reads", reads);
    return mj::dump(c);
}

CaseOutcome prop_execute(const std::string & case_json) {
    CaseOutcome oc;
    mj::Value c = mj::parse(case_json);
    Program p = program_from_json(c.at("program"));
    vfs::reset();
    Model m;
    const char * path = "c01.jls";
    ExecResult er = run_program(p, path, m, true);
    if (!er.err.empty()) { oc.fail("write", er.err); vfs::reset(); return oc; }
    if (er.close_rc) { oc.fail("write", strf("jls_wr_close returned %d", er.close_rc)); vfs::reset(); return oc; }

    Reader rd;
    int32_t rc = rd.open(path);
    if (rc) { oc.fail("open", strf("jls_rd_open of a closed file returned %d %s", rc, ec_name(rc))); vfs::reset(); return oc; }

    bool multi_block = false, crossing_read = false;
    std::map<int, struct jls_signal_def_s> stored;
    for (auto & kv : m.sigs) {
        const SigM & s = kv.second;
        struct jls_signal_def_s sd = {};
        rc = jls_rd_signal(rd.rd, (uint16_t) kv.first, &sd);
        if (rc) { oc.fail("definition", strf("jls_rd_signal(%d) returned %d", kv.first, rc)); break; }
        stored[kv.first] = sd;
        int64_t len = -1;
        rc = jls_rd_fsr_length(rd.rd, (uint16_t) kv.first, &len);
        if (rc) { oc.fail("length", strf("jls_rd_fsr_length(%d) returned %d %s", kv.first, rc, ec_name(rc))); break; }
        if (len != s.length()) {
            oc.fail("length", strf("signal %d (%s, spd=%u sdf=%u): reader reports %lld samples, %lld were written (first id %lld)", kv.first, s.dt->name,
                                   sd.samples_per_data, sd.sample_decimate_factor, (long long) len, (long long) s.length(), (long long) s.first_id));
            break;
        }
        if (s.has_data && sd.sample_id_offset != s.first_id) { oc.fail("sample_id_offset", strf("signal %d: sample_id_offset %lld, first written id %lld", kv.first, (long long) sd.sample_id_offset, (long long) s.first_id)); break; }
        if (sd.samples_per_data && s.length() > (int64_t) sd.samples_per_data) multi_block = true;
        {   // summary levels that have chunks on disk (documented structure: level-1 chunk = eps entries of sdf samples, ...)
            int64_t l1 = (int64_t) sd.entries_per_summary * sd.sample_decimate_factor, lv = 0;
            if (s.length() >= 1) lv = 1;
            int64_t span = l1;
            while (span > 0 && s.length() > span && lv < 6) { ++lv; if (span > (1LL << 40)) break; span *= sd.summary_decimate_factor; }
            oc.tags.push_back(strf("levels:%lld", (long long) lv));
            if (sd.sample_id_offset != 0) oc.tags.push_back("nonzero_first_id");
        }
        oc.tags.push_back(std::string("dtype:") + s.dt->name);
    }

    // the generated read script, on this one reader instance
    if (oc.ok) for (auto & rv : c.at("reads").a) {
        ReadOp r = read_from(rv);
        auto it = m.sigs.find(r.sig);
        if (it == m.sigs.end() || !it->second.dt) continue;
        const SigM & s = it->second;
        const DType & dt = *s.dt;
        int64_t len = s.length();
        int64_t spd = stored[r.sig].samples_per_data ? stored[r.sig].samples_per_data : 1;
        if (r.call == "len") {
            int64_t l2 = -1;
            rc = jls_rd_fsr_length(rd.rd, (uint16_t) r.sig, &l2);
            if (rc || l2 != len) { oc.fail("length", strf("repeated jls_rd_fsr_length(%d): rc=%d len=%lld want %lld", r.sig, rc, (long long) l2, (long long) len)); break; }
            continue;
        }
        if (r.call == "annos") { AnnoCollect ac; jls_rd_annotations(rd.rd, (uint16_t) r.sig, INT64_MIN / 2, anno_cbk, &ac); continue; }
        if (r.call == "utc") { UtcCollect uc; jls_rd_utc(rd.rd, (uint16_t) r.sig, INT64_MIN / 2, utc_cbk, &uc); continue; }
        if (r.call == "user") { UserCollect uc; jls_rd_user_data(rd.rd, user_cbk, &uc); continue; }
        if (len <= 0) continue;
        int64_t start;
        switch (r.anchor) {
            case 0: start = 0; break;
            case 1: start = (r.k * spd) % (len + 1); break;
            case 2: start = len; break;
            default: start = (len * (r.k % 41)) / 41; break;
        }
        start += r.d;
        if (start < 0) start = 0;
        if (start >= len) start = len - 1;
        int64_t n;
        switch (r.nk) {
            case 0: n = r.nv; break;
            case 1: n = len - start; break;
            case 2: n = r.nv * spd + r.d; break;
            default: n = (len * r.nv) / 1000; break;
        }
        if (n < 1) n = 1;
        if (n > len - start) n = len - start;
        if (r.call == "stats") {
            // only to disturb the reader's shared buffers/caches; the values are C02's business
            if (dt.bits == 24) continue;
            double out[4];
            jls_rd_fsr_statistics(rd.rd, (uint16_t) r.sig, start, n, out, 1);
            continue;
        }
        bool f32api = (r.call == "f32");
        std::vector<uint8_t> got;
        rc = read_window(rd.rd, r.sig, dt, start, n, got, f32api);
        if (rc) { oc.fail("read", strf("jls_rd_fsr(sig %d %s, start %lld, n %lld) returned %d %s (length %lld, spd %lld)", r.sig, dt.name, (long long) start, (long long) n, rc, ec_name(rc), (long long) len, (long long) spd)); break; }
        std::vector<uint8_t> want = s.samples.window(start, n);
        int64_t bad = compare_window(dt, got, want, n);
        if (bad >= 0) {
            oc.fail("samples", strf("sig %d %s start %lld n %lld (spd %lld, first id %lld): sample %lld (abs %lld) reads 0x%llx, written 0x%llx", r.sig, dt.name, (long long) start, (long long) n,
                                    (long long) spd, (long long) s.first_id, (long long) bad, (long long) (start + bad), (unsigned long long) window_sample(dt, got, bad), (unsigned long long) window_sample(dt, want, bad)));
            break;
        }
        if ((start / spd) != ((start + n - 1) / spd) || start + n == len) crossing_read = true;
        if (dt.bits < 8 && ((start * dt.bits) % 8)) oc.tags.push_back("subbyte_unaligned_read");
    }
    rd.close();
    oc.nontrivial = multi_block && crossing_read;
    if (multi_block) oc.tags.push_back("multi_block");
    oc.tags.push_back(strf("signals:%zu", m.sigs.size()));
    vfs::reset();
    return oc;
}
