// C05 — files conform to the published format; an independent decoder agrees.
#include "../gen_common.h"
#include "../decoder.h"
#include "../stats_oracle.h"

const char * prop_id() { return "C05"; }
const char * prop_rule() {
    return "case = general writer program (definitions at any time, 1-3 signals over all data types incl. VSR and empty signals, omit "
           "toggles, annotations incl. signal 0, UTC, user data incl. > 1 MiB, flushes; 0-4 summary levels) produced via one of: "
           "sync writer, threaded writer (real threads), jls_copy of the sync file, unclosed crash image (exact replay of the backend "
           "write log up to a generated point) repaired by jls_rd_open; oracle = decoder written from format.h/README reports no "
           "conformance violation and its content equals the model (and the library reader); non-trivial = >= 2 tracks with data and "
           "an INDEX/SUMMARY pair at level >= 2, or a repaired/copied/threaded origin; distinct = case hash";
}

namespace {

std::string cmp_content(const dec::File & f, const Model & m, bool prefix_ok, CaseOutcome & oc) {
    // sources
    std::map<int, const dec::SourceDef *> ds;
    for (auto & s : f.sources) ds[s.id] = &s;
    for (auto & kv : m.sources) {
        auto it = ds.find(kv.first);
        if (it == ds.end()) { if (prefix_ok) continue; return dec::sf("source %d not found by the decoder", kv.first); }
        const Op & w = kv.second; const dec::SourceDef & g = *it->second;
        auto S = [](const OptStr & o) { return o.null ? std::string() : o.str(); };
        if (g.name != S(w.name) || g.vendor != S(w.vendor) || g.model != S(w.model) || g.version != S(w.version) || g.serial != S(w.serial)) return dec::sf("source %d strings differ", kv.first);
    }
    if (!ds.count(0) || ds[0]->name != "global_annotation_source") return "source 0 missing or altered";
    for (auto & kv : m.sigs) {
        const SigM & s = kv.second;
        const dec::SignalDef * g = f.signal(kv.first);
        if (!g) { if (prefix_ok) continue; return dec::sf("signal %d not found by the decoder", kv.first); }
        if (g->source_id != s.def.src || g->signal_type != s.def.stype || g->data_type != (s.dt->code | ((uint32_t) (s.def.q & 0xff) << 16))) return dec::sf("signal %d definition fields differ", kv.first);
        auto S = [](const OptStr & o) { return o.null ? std::string() : o.str(); };
        if (g->name != S(s.def.name) || g->units != S(s.def.units)) return dec::sf("signal %d strings differ", kv.first);
        if (!s.fsr) continue;
        // samples: every stored segment equals the model window; omitted blocks are level-1 entries == 0
        auto fit = f.fsr.find(kv.first);
        int64_t covered_end = s.first_id;
        if (fit != f.fsr.end()) {
            for (auto & seg : fit->second) {
                if (seg.bits != s.dt->bits) return dec::sf("signal %d: DATA entry_size_bits %u, type has %d", kv.first, seg.bits, s.dt->bits);
                int64_t rel = seg.ts - s.first_id;
                if (rel < 0 || rel + (int64_t) seg.count > s.length()) { return dec::sf("signal %d: DATA chunk [%lld,+%u) outside the written range (first id %lld, %lld samples)", kv.first, (long long) seg.ts, seg.count, (long long) s.first_id, (long long) s.length()); }
                for (uint32_t k = 0; k < seg.count; ++k) {
                    uint64_t a = dec::seg_sample(f, seg, k), b = s.samples.get(rel + k);
                    bool same = a == b;
                    if (!same && s.is_gap[(size_t) (rel + k)] && s.dt->kind == 'f') same = std::isnan(sample_to_double(*s.dt, a));
                    if (!same) return dec::sf("signal %d (%s): sample %lld in the file is 0x%llx, written 0x%llx", kv.first, s.dt->name, (long long) (rel + k), (unsigned long long) a, (unsigned long long) b);
                }
                covered_end = seg.ts + seg.count;
            }
        }
        // coverage: stored segments + omitted blocks must add up to the written length (closed files)
        if (!prefix_ok) {
            int64_t stored = 0;
            if (fit != f.fsr.end()) for (auto & seg : fit->second) stored += seg.count;
            int64_t omitted = 0;
            auto ii = f.fsr_index.find(kv.first);
            if (ii != f.fsr_index.end() && ii->second.count(1)) for (auto & ch : ii->second.at(1)) for (auto e : ch) if (!e) omitted += g->spd;
            if (stored + omitted != s.length()) {
                // the last omitted block may be partial (on-request omission): then only the reader-visible length differs (C15's business)
                bool ok = omitted > 0 && stored + omitted > s.length() && stored + omitted - s.length() < (int64_t) g->spd;
                if (!ok) return dec::sf("signal %d: %lld samples stored + %lld in omitted blocks, %lld written", kv.first, (long long) stored, (long long) omitted, (long long) s.length());
            }
            (void) covered_end;
        }
        // summaries against the model (levels 1..N), where the type can be summarised and no gap fill is involved
        if (summarisable(*s.dt)) {
            auto si = f.fsr_summary.find(kv.first);
            if (si != f.fsr_summary.end()) for (auto & lv : si->second) {
                int L = lv.first;
                int64_t w = g->sdf; for (int l = 2; l <= L; ++l) w *= g->sumdf;
                for (auto & e : lv.second) {
                    int64_t rel = e.ts - s.first_id;
                    if (rel < 0 || rel + w > s.length()) return dec::sf("signal %d level %d: summary entry at %lld covers samples beyond the written range", kv.first, L, (long long) e.ts);
                    WinStats ws = model_stats(s, rel, w);
                    if (ws.nfinite == 0) { if (!std::isnan(e.mean)) return dec::sf("signal %d level %d entry @%lld: all samples are fill but mean=%g", kv.first, L, (long long) rel, e.mean); continue; }
                    if (ws.nfinite != ws.n) continue;   // mixed gap windows: C09
                    StatTol tol = stat_tol(*s.dt, ws, L, (double) std::max(g->sdf, g->sumdf));
                    bool f64s = summary_is_f64(*s.dt);
                    double wmn = f64s ? ws.mn : (double) (float) ws.mn, wmx = f64s ? ws.mx : (double) (float) ws.mx;
                    if (e.min != wmn || e.max != wmx) return dec::sf("signal %d (%s) level %d entry @%lld: min/max %g/%g, samples give %g/%g", kv.first, s.dt->name, L, (long long) rel, e.min, e.max, wmn, wmx);
                    if (fabs(e.mean - (double) ws.mean) > tol.mean) return dec::sf("signal %d (%s) level %d entry @%lld: mean %.10g, samples give %.10Lg (tol %g)", kv.first, s.dt->name, L, (long long) rel, e.mean, ws.mean, tol.mean);
                    double sigma = sqrt((double) ws.var), lo = sqrt((double) (g->sdf - 1) / (double) g->sdf) * sigma;
                    if (e.std < lo - tol.std_abs - 1e-6 * sigma || e.std > sigma + tol.std_abs + 1e-6 * sigma) return dec::sf("signal %d (%s) level %d entry @%lld: std %.10g outside [%.10g, %.10g]", kv.first, s.dt->name, L, (long long) rel, e.std, lo, sigma);
                }
                oc.tags.push_back(dec::sf("summary_level:%d", L));
            }
        }
    }
    // annotations / utc / user data
    auto cmp_annos = [&](int sig, const std::vector<AnnoM> & W) -> std::string {
        auto it = f.annos.find(sig);
        size_t n = it == f.annos.end() ? 0 : it->second.size();
        if (n > W.size() || (!prefix_ok && n != W.size())) return dec::sf("signal %d: %zu annotations in the file, %zu written", sig, n, W.size());
        for (size_t k = 0; k < n; ++k) {
            const dec::Anno & a = it->second[k]; const AnnoM & b = W[k];
            if (a.ts != b.ts || a.atype != b.atype || a.stor != b.stor || a.group != b.group || !float_same(a.y, b.y) || a.data != b.data) return dec::sf("signal %d annotation %zu differs from what was written", sig, k);
        }
        return "";
    };
    std::string r = cmp_annos(0, m.anno0);
    if (!r.empty()) return r;
    for (auto & kv : m.sigs) {
        r = cmp_annos(kv.first, kv.second.annos);
        if (!r.empty()) return r;
        auto it = f.utcs.find(kv.first);
        size_t n = it == f.utcs.end() ? 0 : it->second.size();
        if (n > kv.second.utcs.size() || (!prefix_ok && n != kv.second.utcs.size())) return dec::sf("signal %d: %zu UTC entries in the file, %zu written", kv.first, n, kv.second.utcs.size());
        for (size_t k = 0; k < n; ++k) if (it->second[k].id != kv.second.utcs[k].id || it->second[k].utc != kv.second.utcs[k].utc) return dec::sf("signal %d UTC entry %zu differs", kv.first, k);
    }
    if (f.user.size() > m.user.size() || (!prefix_ok && f.user.size() != m.user.size())) return dec::sf("%zu user-data items in the file, %zu written", f.user.size(), m.user.size());
    for (size_t k = 0; k < f.user.size(); ++k) if (f.user[k].meta != m.user[k].meta || f.user[k].stor != m.user[k].stor || f.user[k].data != m.user[k].data) return dec::sf("user data item %zu differs", k);
    return "";
}

// the library reader must agree with the decoder on what the file contains
std::string cmp_reader(const char * path, const dec::File & f, const Model & m, bool repaired) {
    Reader rd;
    int32_t rc = rd.open(path);
    if (rc) return dec::sf("jls_rd_open returned %d", rc);
    for (auto & kv : m.sigs) {
        const SigM & s = kv.second;
        if (!s.fsr || !f.signal(kv.first)) continue;
        int64_t len = -1;
        rc = jls_rd_fsr_length(rd.rd, (uint16_t) kv.first, &len);
        if (rc) return dec::sf("jls_rd_fsr_length(%d) returned %d", kv.first, rc);
        auto fit = f.fsr.find(kv.first);
        if (fit == f.fsr.end()) { if (len != 0) return dec::sf("signal %d: reader length %lld but no DATA chunk", kv.first, (long long) len); continue; }
        int64_t first = fit->second.front().ts;
        for (auto & seg : fit->second) {
            int64_t rel = seg.ts - first;
            if (rel + (int64_t) seg.count > len) {
                if (repaired) break;   // data chunks beyond the repaired index are not exposed by the reader (C03 judges how much may be lost)
                return dec::sf("signal %d: reader length %lld shorter than the stored data (%lld+%u)", kv.first, (long long) len, (long long) rel, seg.count);
            }
            std::vector<uint8_t> got;
            rc = read_window(rd.rd, kv.first, *s.dt, rel, seg.count, got);
            if (rc) return dec::sf("jls_rd_fsr(sig %d, %lld, %u) returned %d", kv.first, (long long) rel, seg.count, rc);
            for (uint32_t k = 0; k < seg.count; ++k) if (window_sample(*s.dt, got, k) != dec::seg_sample(f, seg, k)) return dec::sf("signal %d sample %lld: reader and decoder disagree", kv.first, (long long) (rel + k));
        }
    }
    UserCollect uc;
    rc = jls_rd_user_data(rd.rd, user_cbk, &uc);
    if (rc || uc.v.size() != f.user.size()) return dec::sf("reader returns %zu user-data items (rc %d), decoder %zu", uc.v.size(), rc, f.user.size());
    for (auto & kv : f.annos) {
        AnnoCollect ac;
        rc = jls_rd_annotations(rd.rd, (uint16_t) kv.first, INT64_MIN / 4, anno_cbk, &ac);
        // after a repair the index of a non-FSR track may end before the last DATA chunk: the reader then returns a prefix
        if (rc || (repaired ? ac.v.size() > kv.second.size() : ac.v.size() != kv.second.size())) return dec::sf("signal %d: reader returns %zu annotations (rc %d), decoder %zu", kv.first, ac.v.size(), rc, kv.second.size());
    }
    for (auto & kv : f.utcs) {
        UtcCollect uc2;
        rc = jls_rd_utc(rd.rd, (uint16_t) kv.first, INT64_MIN / 4, utc_cbk, &uc2);
        if (rc || (repaired ? uc2.v.size() > kv.second.size() : uc2.v.size() != kv.second.size())) return dec::sf("signal %d: reader returns %zu UTC entries (rc %d), decoder %zu", kv.first, uc2.v.size(), rc, kv.second.size());
    }
    return "";
}

}  // namespace

std::string prop_generate(Tape & t, int size) {
    gen_allow_q() = true;   // integer signals may carry a fixed-point exponent in their data type
    GenOpts go;
    go.allow_big = size >= 50;
    go.allow_gaps = true;
    go.sample_budget = 30000;
    Program p = t.chance(1, 8) ? gen_bigblock(t, size) : gen_general(t, size, go);
    mj::Value c = mj::Value::object();
    size_t origin = t.weighted({5, 2, 2, 3});
    static const char * O[] = {"sync", "twr", "copy", "repair"};
    c.set("origin", O[origin]);
    if (origin == 1) p.via = "twr";
    if (origin == 3) p.close = t.chance(1, 3);
    c.set("program", program_to_json(p));
    c.set("crash_frac", (long long) t.range(0, 1000));   // where the writer is stopped (per mille of the mutating operations)
    c.set("crash_bytes", (long long) t.range(0, 40));
    return mj::dump(c);
}

CaseOutcome prop_execute(const std::string & case_json) {
    CaseOutcome oc;
    mj::Value c = mj::parse(case_json);
    Program p = program_from_json(c.at("program"));
    std::string origin = c.get_str("origin", "sync");
    vfs::reset();
    Model m;
    const char * path = "c05.jls";
    if (origin == "repair") vfs::log_enable(true);
    ExecResult er = run_program(p, path, m, true);
    vfs::log_enable(false);
    if (!er.err.empty()) { oc.fail("write", er.err); vfs::reset(); return oc; }
    if (p.close && er.close_rc) { oc.fail("write", strf("close returned %d", er.close_rc)); vfs::reset(); return oc; }
    oc.tags.push_back("origin:" + origin);
    const char * final_path = path;
    bool prefix_ok = false;
    int64_t torn_inplace_off = -1;
    if (origin == "copy") {
        int32_t rc = jls_copy(path, "c05_copy.jls", nullptr, nullptr, nullptr, nullptr);
        if (rc) { oc.fail("copy", strf("jls_copy returned %d %s", rc, ec_name(rc))); vfs::reset(); return oc; }
        final_path = "c05_copy.jls";
    } else if (origin == "repair") {
        std::vector<vfs::Op> log = vfs::log();
        size_t nm = vfs::count_mutations(log, path);
        size_t k = (size_t) ((uint64_t) nm * (uint64_t) c.get_int("crash_frac", 500) / 1000);
        if (k > nm) k = nm;
        size_t cb = (size_t) c.get_int("crash_bytes", 0);
        {   // is operation k+1 an in-place write that gets torn?
            size_t n = 0;
            for (auto & o : log) {
                if (o.path != path || (o.kind != vfs::OP_WRITE && o.kind != vfs::OP_TRUNCATE)) continue;
                if (n == k) { if (o.kind == vfs::OP_WRITE && cb > 0 && cb < o.data.size() && o.off + (int64_t) o.data.size() <= o.size_before) torn_inplace_off = o.off; break; }
                ++n;
            }
        }
        std::vector<uint8_t> img = vfs::crash_image(log, path, k, cb);
        vfs::put("c05_crash.jls", img);
        if (getenv("VERIF_DUMP_PRE")) { FILE * fp = fopen(getenv("VERIF_DUMP_PRE"), "wb"); if (fp) { fwrite(img.data(), 1, img.size(), fp); fclose(fp); } }
        final_path = "c05_crash.jls";
        Reader rd;
        int32_t rc = rd.open(final_path);
        rd.close();
        if (rc) { oc.tags.push_back("repair:open_failed"); oc.nontrivial = false; vfs::reset(); return oc; }   // C03 decides whether refusing is acceptable
        prefix_ok = true;
        oc.tags.push_back("repair:opened");
    }
    std::vector<uint8_t> bytes = vfs::get(final_path);
    dec::File f = dec::decode(bytes);
    if (getenv("VERIF_DUMP")) { FILE * fp = fopen(getenv("VERIF_DUMP"), "wb"); if (fp) { fwrite(bytes.data(), 1, bytes.size(), fp); fclose(fp); } }
    if (!f.violations.empty() && origin == "repair" && torn_inplace_off >= 0) {
        // KF-C03-1: the writer was stopped in the middle of an in-place rewrite (chunk header link update or head table):
        // the rewritten chunk is left with a CRC that does not match and repair keeps it in the file.
        bool only_that = true;
        for (auto & v : f.violations) {
            std::string a = dec::sf("CRC mismatch at %lld", (long long) torn_inplace_off), b2 = dec::sf("CRC mismatch at %lld", (long long) torn_inplace_off - 32);
            if (v.find(a) == std::string::npos && v.find(b2) == std::string::npos) only_that = false;
        }
        if (only_that) { oc.ok = false; oc.clause = "conformance"; oc.detail = f.violations[0]; oc.known = "KF-C03-1"; vfs::reset(); return oc; }
    }
    if (!f.violations.empty()) {
        std::string all;
        for (size_t k = 0; k < f.violations.size() && k < 4; ++k) all += f.violations[k] + "; ";
        oc.fail("conformance", strf("[%s, %zu bytes] %s", origin.c_str(), bytes.size(), all.c_str()));
        vfs::reset();
        return oc;
    }
    if (!f.closed) { oc.fail("conformance", strf("[%s] file does not end with END / header length != size", origin.c_str())); vfs::reset(); return oc; }
    bool skip_model = false;
    if (origin == "copy") {
        // jls_copy re-writes the chunk stream; blocks that were omitted in the original have no DATA chunk there and what the
        // copy holds for them is C17's business.  C05 judges the copy's conformance and self-consistency in that case.
        std::vector<uint8_t> ob = vfs::get(path);
        dec::File of = dec::decode(ob);
        for (auto & sg : of.fsr_index) { auto l1 = sg.second.find(1); if (l1 != sg.second.end()) for (auto & ch : l1->second) for (auto e : ch) if (!e) skip_model = true; }
        if (skip_model) oc.tags.push_back("copy_of_file_with_omitted_blocks");
    }
    std::string r = skip_model ? std::string() : cmp_content(f, m, prefix_ok, oc);
    if (!r.empty()) { oc.fail("content", strf("[%s] %s", origin.c_str(), r.c_str())); vfs::reset(); return oc; }
    r = cmp_reader(final_path, f, m, origin == "repair");
    if (!r.empty()) { oc.fail("reader_vs_decoder", strf("[%s] %s", origin.c_str(), r.c_str())); vfs::reset(); return oc; }
    int tracks_with_data = 0;
    for (auto & kv : f.fsr) if (!kv.second.empty()) ++tracks_with_data;
    for (auto & kv : f.annos) if (!kv.second.empty()) ++tracks_with_data;
    for (auto & kv : f.utcs) if (!kv.second.empty()) ++tracks_with_data;
    oc.nontrivial = (tracks_with_data >= 2 && f.max_fsr_level >= 2) || origin != "sync";
    oc.tags.push_back(strf("fsr_levels:%d", f.max_fsr_level));
    if (f.orphans) oc.tags.push_back("orphans");
    vfs::reset();
    return oc;
}
