// C16 — signal definitions normalise to consistent, stable storage parameters.
// Through the public API: jls_wr_signal_def -> close -> jls_rd_open -> jls_rd_signal.
#include "../prop_api.h"
#include "../mjson.h"
#include "../jlsx.h"
#include "../vfs.h"

const char * prop_id() { return "C16"; }
const char * prop_rule() {
    return "case = list of up to 40 definitions (data type, samples_per_data, sample_decimate_factor, entries_per_summary, "
           "summary_decimate_factor) with fields drawn from {0, small grid, 2^k, 2^k+-1, (near-)multiples of another field, "
           "UINT32_MAX-0..300, random 32-bit}; each is defined through jls_wr_signal_def, read back, re-submitted (idempotence) and, "
           "for zero fields, compared with the explicit per-width default (metamorphic); exhaustive part: the complete grid "
           "{0,1,9,10,11,16,100,1000}^4 x 15 data types; non-trivial = accepted definition whose stored parameters differ from the "
           "input; distinct = (type, 4 inputs) tuples";
}

namespace {

struct Def { const DType * dt; uint32_t spd, sdf, eps, sumdf; };
struct Stored { bool accepted = false; int32_t rc = 0; uint32_t spd = 0, sdf = 0, eps = 0, sumdf = 0; };

mj::Value def_json(const Def & d) {
    mj::Value v = mj::Value::object();
    v.set("dtype", d.dt->name);
    v.set("spd", (long long) d.spd); v.set("sdf", (long long) d.sdf); v.set("eps", (long long) d.eps); v.set("sumdf", (long long) d.sumdf);
    return v;
}

// define all (<=250) in one file, read back
bool roundtrip(const std::vector<Def> & defs, std::vector<Stored> & out, std::string & err) {
    vfs::reset();
    const char * path = "c16.jls";
    struct jls_wr_s * wr = nullptr;
    if (jls_wr_open(&wr, path)) { err = "jls_wr_open failed"; return false; }
    struct jls_source_def_s src = {};
    src.source_id = 1; src.name = "s"; src.vendor = "v"; src.model = "m"; src.version = "1"; src.serial_number = "0";
    if (jls_wr_source_def(wr, &src)) { err = "source_def failed"; jls_wr_close(wr); return false; }
    out.assign(defs.size(), Stored());
    for (size_t k = 0; k < defs.size(); ++k) {
        struct jls_signal_def_s sd = {};
        sd.signal_id = (uint16_t) (k + 1);
        sd.source_id = 1;
        sd.signal_type = JLS_SIGNAL_TYPE_FSR;
        sd.data_type = defs[k].dt->code;
        sd.sample_rate = 1000;
        sd.samples_per_data = defs[k].spd;
        sd.sample_decimate_factor = defs[k].sdf;
        sd.entries_per_summary = defs[k].eps;
        sd.summary_decimate_factor = defs[k].sumdf;
        sd.name = "n"; sd.units = "u";
        out[k].rc = jls_wr_signal_def(wr, &sd);
        out[k].accepted = out[k].rc == 0;
    }
    if (jls_wr_close(wr)) { err = "jls_wr_close failed"; return false; }
    struct jls_rd_s * rd = nullptr;
    int32_t rc = jls_rd_open(&rd, path);
    if (rc) { err = strf("jls_rd_open failed: %d %s", rc, ec_name(rc)); return false; }
    for (size_t k = 0; k < defs.size(); ++k) {
        struct jls_signal_def_s sd = {};
        int32_t r2 = jls_rd_signal(rd, (uint16_t) (k + 1), &sd);
        if (out[k].accepted) {
            if (r2) { err = strf("definition %zu was accepted by the writer but jls_rd_signal returns %d", k, r2); jls_rd_close(rd); return false; }
            if (sd.data_type != defs[k].dt->code) { err = strf("definition %zu: data_type read back 0x%x, written 0x%x", k, sd.data_type, defs[k].dt->code); jls_rd_close(rd); return false; }
            out[k].spd = sd.samples_per_data; out[k].sdf = sd.sample_decimate_factor;
            out[k].eps = sd.entries_per_summary; out[k].sumdf = sd.summary_decimate_factor;
        }
        // A rejected definition may still be visible in this commit (see C13); C16 does not judge that.
    }
    jls_rd_close(rd);
    return true;
}

// relations the format relies on; returns "" or description
std::string relations(const Def & in, const Stored & s) {
    const int bits = in.dt->bits;
    if (s.sdf < 10 || s.spd < 10 || s.eps < 10 || s.sumdf < 10)
        return strf("minimum violated: spd=%u sdf=%u eps=%u sumdf=%u", s.spd, s.sdf, s.eps, s.sumdf);
    if (((uint64_t) s.sdf * (uint64_t) bits) % 8 != 0)
        return strf("level-1 entry covers %llu bits: not a whole number of bytes (sdf=%u)", (unsigned long long) s.sdf * bits, s.sdf);
    if (bits != 24 && ((uint64_t) s.sdf * (uint64_t) bits) % 256 != 0)
        return strf("level-1 entry covers %llu bits: not a multiple of 256 (sdf=%u, %d-bit)", (unsigned long long) s.sdf * bits, s.sdf, bits);
    if (s.spd % s.sdf != 0) return strf("block does not hold a whole number of summary entries: spd=%u sdf=%u", s.spd, s.sdf);
    uint32_t epd = s.spd / s.sdf;
    if (epd == 0 || s.eps % epd != 0) return strf("summary chunk does not hold a whole number of blocks' entries: eps=%u spd/sdf=%u", s.eps, epd);
    if (s.eps % s.sumdf != 0) return strf("summary chunk does not hold a whole number of next-level groups: eps=%u sumdf=%u", s.eps, s.sumdf);
    // no wrap-around of the rounded-up fields
    if (in.sdf && s.sdf < in.sdf) return strf("sample_decimate_factor wrapped: in=%u stored=%u", in.sdf, s.sdf);
    if (in.eps && s.eps < in.eps) return strf("entries_per_summary wrapped: in=%u stored=%u", in.eps, s.eps);
    if (in.sumdf && s.sumdf != (in.sumdf < 10 ? 10 : in.sumdf)) return strf("summary_decimate_factor changed: in=%u stored=%u", in.sumdf, s.sumdf);
    return "";
}

bool small_grid(const Def & d) { return d.spd <= 1000 && d.sdf <= 1000 && d.eps <= 1000 && d.sumdf <= 1000; }

// full check of a batch; fills failure
void check_batch(const std::vector<Def> & defs, CaseOutcome & oc, long long * nontrivial_count) {
    std::vector<Stored> st;
    std::string err;
    if (!roundtrip(defs, st, err)) { oc.fail("roundtrip", err); return; }
    std::vector<Def> second;
    std::vector<size_t> second_of;   // index into defs
    std::vector<int> second_kind;    // 0 = resubmit stored, 1 = zeros replaced by defaults
    for (size_t k = 0; k < defs.size(); ++k) {
        const Def & d = defs[k];
        if (!st[k].accepted) {
            if (small_grid(d)) { oc.fail("rejected", strf("definition %s rejected with %d (%s) although all fields are <= 1000", mj::dump(def_json(d)).c_str(), st[k].rc, ec_name(st[k].rc))); return; }
            continue;
        }
        std::string r = relations(d, st[k]);
        if (!r.empty()) { oc.fail("relations", strf("%s -> stored {spd=%u sdf=%u eps=%u sumdf=%u}: %s", mj::dump(def_json(d)).c_str(), st[k].spd, st[k].sdf, st[k].eps, st[k].sumdf, r.c_str())); return; }
        if (st[k].spd != d.spd || st[k].sdf != d.sdf || st[k].eps != d.eps || st[k].sumdf != d.sumdf) { if (nontrivial_count) ++*nontrivial_count; oc.nontrivial = true; }
        second.push_back(Def{d.dt, st[k].spd, st[k].sdf, st[k].eps, st[k].sumdf}); second_of.push_back(k); second_kind.push_back(0);
        DefDefaults dd;
        if ((d.spd == 0 || d.sdf == 0 || d.eps == 0 || d.sumdf == 0) && width_defaults(d.dt->bits, dd)) {
            second.push_back(Def{d.dt, d.spd ? d.spd : dd.spd, d.sdf ? d.sdf : dd.sdf, d.eps ? d.eps : dd.eps, d.sumdf ? d.sumdf : dd.sumdf});
            second_of.push_back(k); second_kind.push_back(1);
        }
    }
    for (size_t base = 0; base < second.size(); base += 250) {
        std::vector<Def> part(second.begin() + (long) base, second.begin() + (long) std::min(second.size(), base + 250));
        std::vector<Stored> st2;
        if (!roundtrip(part, st2, err)) { oc.fail("roundtrip", err); return; }
        for (size_t j = 0; j < part.size(); ++j) {
            size_t k = second_of[base + j];
            const char * what = second_kind[base + j] == 0 ? "re-submitting the stored definition" : "replacing zero fields by the per-width defaults";
            if (!st2[j].accepted) { oc.fail(second_kind[base + j] == 0 ? "idempotence" : "defaults", strf("%s %s is rejected (%d)", what, mj::dump(def_json(part[j])).c_str(), st2[j].rc)); return; }
            if (st2[j].spd != st[k].spd || st2[j].sdf != st[k].sdf || st2[j].eps != st[k].eps || st2[j].sumdf != st[k].sumdf) {
                oc.fail(second_kind[base + j] == 0 ? "idempotence" : "defaults",
                        strf("%s: input %s stored {%u,%u,%u,%u}; %s stores {%u,%u,%u,%u}", what, mj::dump(def_json(defs[k])).c_str(),
                             st[k].spd, st[k].sdf, st[k].eps, st[k].sumdf, mj::dump(def_json(part[j])).c_str(), st2[j].spd, st2[j].sdf, st2[j].eps, st2[j].sumdf));
                return;
            }
        }
    }
}

uint32_t gen_field(Tape & t, uint32_t other1, uint32_t other2) {
    static const std::vector<uint32_t> grid = {1, 9, 10, 11, 16, 100, 1000};
    switch (t.weighted({3, 5, 3, 3, 4, 3, 2, 3})) {
        case 0: return 0;
        case 1: return t.pick(grid);
        case 2: return 1u << t.below(32);
        case 3: { uint32_t b = 1u << t.below(32); return t.coin() ? b + 1 : b - 1; }
        case 4: { uint32_t o = t.coin() ? other1 : other2; if (!o) o = 10; uint64_t v = (uint64_t) o * t.range(1, 40) + (uint64_t) t.range(0, 2) - 1; return (uint32_t) (v > 0xffffffffull ? 0xffffffffu : v); }
        case 5: return 0xffffffffu - (uint32_t) t.range(0, 300);
        case 6: return t.raw();
        default: return (uint32_t) t.range(0, 100000);
    }
}

}  // namespace

std::string prop_generate(Tape & t, int size) {
    mj::Value c = mj::Value::object();
    mj::Value defs = mj::Value::array();
    int n = (int) t.range(1, 4 + size / 3);
    for (int k = 0; k < n; ++k) {
        Def d;
        d.dt = &DTYPES[t.below(N_DTYPES)];
        d.sdf = gen_field(t, 10, 100);
        d.spd = gen_field(t, d.sdf, 1000);
        d.sumdf = gen_field(t, d.sdf, 20);
        d.eps = gen_field(t, d.sumdf, d.sdf ? d.spd / d.sdf : d.spd);
        defs.push(def_json(d));
    }
    c.set("defs", defs);
    return mj::dump(c);
}

CaseOutcome prop_execute(const std::string & case_json) {
    CaseOutcome oc;
    mj::Value c = mj::parse(case_json);
    std::vector<Def> defs;
    for (auto & e : c.at("defs").a) {
        Def d;
        d.dt = dtype_by_name(e.at("dtype").as_str());
        if (!d.dt) continue;
        d.spd = (uint32_t) e.at("spd").as_int(); d.sdf = (uint32_t) e.at("sdf").as_int();
        d.eps = (uint32_t) e.at("eps").as_int(); d.sumdf = (uint32_t) e.at("sumdf").as_int();
        defs.push_back(d);
        if (defs.size() >= 250) break;
        uint64_t mx = std::max(std::max(d.spd, d.sdf), std::max(d.eps, d.sumdf));
        oc.tags.push_back(mx <= 1000 ? "max<=1000" : mx <= (1u << 24) ? "max<=2^24" : mx < 0xfffffe00u ? "max<2^32-512" : "max>=2^32-512");
        oc.tags.push_back(std::string("bits:") + std::to_string(d.dt->bits));
    }
    check_batch(defs, oc, nullptr);
    vfs::reset();
    return oc;
}

std::string prop_enumerate(const std::string & tier, const std::string & outdir) {
    (void) tier;
    static const uint32_t G[] = {0, 1, 9, 10, 11, 16, 100, 1000};
    mj::Value res = mj::Value::object();
    mj::Value viol = mj::Value::array();
    long long evals = 0, nt = 0;
    std::vector<Def> batch;
    auto flush = [&]() {
        if (batch.empty()) return;
        // record the batch so that a crash (e.g. SIGFPE) leaves a replay file
        mj::Value cs = mj::Value::object(); mj::Value defs = mj::Value::array();
        for (auto & d : batch) defs.push(def_json(d));
        cs.set("defs", defs);
        mj::Value doc = mj::Value::object(); doc.set("property", "C16"); doc.set("clause", "crash"); doc.set("case", cs);
        mj::write_file(outdir + "/current_case.json", mj::dump(doc));
        CaseOutcome oc;
        check_batch(batch, oc, &nt);
        if (!oc.ok && viol.a.size() < 4) {
            // narrow down to the single failing definition
            mj::Value one = cs;
            for (auto & d : batch) {
                CaseOutcome o1; std::vector<Def> single{d};
                check_batch(single, o1, nullptr);
                if (!o1.ok) { one = mj::Value::object(); mj::Value dj = mj::Value::array(); dj.push(def_json(d)); one.set("defs", dj); oc = o1; break; }
            }
            mj::Value v = mj::Value::object(); v.set("clause", oc.clause); v.set("detail", oc.detail); v.set("case", one);
            viol.push(v);
        }
        evals += (long long) batch.size();
        batch.clear();
    };
    for (int ti = 0; ti < N_DTYPES; ++ti)
        for (uint32_t a : G) for (uint32_t b : G) for (uint32_t c : G) for (uint32_t d : G) {
            batch.push_back(Def{&DTYPES[ti], a, b, c, d});
            if (batch.size() >= 250) flush();
        }
    flush();
    ::remove((outdir + "/current_case.json").c_str());
    res.set("evaluations", evals);
    res.set("distinct_nontrivial", nt);
    res.set("exhaustive", true);
    res.set("bound", "complete grid {0,1,9,10,11,16,100,1000}^4 x 15 data types, each defined, read back, re-submitted and default-substituted");
    res.set("violations", viol);
    mj::Value smp = mj::Value::array();
    smp.push(def_json(Def{&DTYPES[3], 1000, 9, 11, 0}));
    res.set("samples", smp);
    vfs::reset();
    return mj::dump(res);
}
