// C06 (real-thread part) — "plus unsynchronised-access detection on real threads".
// The same generated threaded-writer programs as C06, executed on genuine pthreads (no scheduler shim) in a
// ThreadSanitizer build of the library.  Oracles: (a) ThreadSanitizer reports nothing (data race, lock-order
// inversion, misuse of a mutex) — the process is configured to halt on the first report, the driver turns that into
// a violation with the report text; (b) the file equals the one written synchronously from the accepted calls.
#include <atomic>
#include <mutex>
#include <sched.h>
#include <thread>
#include <unistd.h>
#include "../twr_common.h"
extern "C" {
#include "jls/msg_ring_buffer.h"
}

// ---- ThreadSanitizer report capture ---------------------------------------------------------------
// The runtime calls __tsan_on_report for every report it prints.  The callback runs inside the runtime, so it only
// copies numbers into static storage; classification and symbolisation happen later on the application thread.
extern "C" {
void * __tsan_get_current_report();
int __tsan_get_report_data(void * report, const char ** description, int * count, int * stack_count, int * mop_count, int * loc_count,
                           int * mutex_count, int * thread_count, int * unique_tid_count, void ** sleep_trace, unsigned long trace_size);
int __tsan_get_report_mop(void * report, unsigned long idx, int * tid, void ** addr, int * size, int * write, int * atomic, void ** trace, unsigned long trace_size);
int __tsan_get_report_loc(void * report, unsigned long idx, const char ** type, void ** addr, unsigned long * start, unsigned long * size, int * tid,
                          int * fd, int * suppressable, void ** trace, unsigned long trace_size);
void __sanitizer_symbolize_pc(void * pc, const char * fmt, char * out_buf, size_t out_buf_size);
}
namespace {
struct RaceRec { char kind[32]; void * addr[2]; int size[2], write[2]; void * pc[2][4]; unsigned long loc_start, loc_size; int mops; };
RaceRec g_rec[16];
std::atomic<int> g_nrec{0};
}
extern "C" void __tsan_on_report(void * rep) {
    int k = g_nrec.fetch_add(1);
    if (k >= 16) return;
    RaceRec & r = g_rec[k];
    r = RaceRec();
    const char * desc = nullptr; int count = 0, stacks = 0, mops = 0, locs = 0, mutexes = 0, threads = 0, utids = 0; void * sleep_trace[1] = {nullptr};
    __tsan_get_report_data(rep, &desc, &count, &stacks, &mops, &locs, &mutexes, &threads, &utids, sleep_trace, 1);
    if (desc) { size_t n = 0; while (desc[n] && n < sizeof(r.kind) - 1) { r.kind[n] = desc[n]; ++n; } r.kind[n] = 0; }
    r.mops = mops;
    for (int m = 0; m < mops && m < 2; ++m) {
        int tid = 0, atomic = 0;
        __tsan_get_report_mop(rep, (unsigned long) m, &tid, &r.addr[m], &r.size[m], &r.write[m], &atomic, r.pc[m], 4);
    }
    if (locs > 0) {
        const char * type = nullptr; void * addr = nullptr; int tid = 0, fd = 0, supp = 0; void * tr[1] = {nullptr};
        __tsan_get_report_loc(rep, 0, &type, &addr, &r.loc_start, &r.loc_size, &tid, &fd, &supp, tr, 1);
    }
}
namespace {
std::string sym(void * pc) {
    if (!pc) return "?";
    char buf[512]; buf[0] = 0;
    __sanitizer_symbolize_pc(pc, "%f %s:%l", buf, sizeof(buf));
    std::string s(buf);
    size_t p = s.rfind("/src/"); if (p != std::string::npos) { size_t sp = s.find(' '); if (sp != std::string::npos && sp < p) s = s.substr(0, sp + 1) + s.substr(p + 1); }
    return s;
}
// the innermost frame may be an interceptor (memcpy): report the first two frames
std::string where(const RaceRec & r, int m) { return sym(r.pc[m][0]) + (r.pc[m][1] ? " <- " + sym(r.pc[m][1]) : ""); }
}

const char * prop_id() { return "C06"; }
const char * prop_rule() {
    return "real-thread part: case = the C06 program generator (1-2 FSR signals, fsr messages from a few bytes to most of the 1 KiB queue, "
           "annotations, UTC, user data, omit, flush; drop-on-overflow on/off; optional second application thread on a disjoint signal) run "
           "on genuine pthreads in a ThreadSanitizer build, with yields / short sleeps between submissions taken from the case; oracle = no "
           "ThreadSanitizer data-race report whose address lies in the message queue (ring-buffer struct + buffer) or anywhere outside the "
           "threaded writer's own control block (= writer/file state), and file == synchronous reference of the accepted calls; races on the "
           "control fields in front of the queue (flush ticket counters, backend pointer) and other report kinds are counted, not judged; non-trivial = accepted message "
           "bytes exceed twice the queue capacity (the queue wrapped) or a submission was refused; distinct = case hash";
}

std::string prop_generate(Tape & t, int size) {
    TwrCase c = gen_twr_case(t, size, t.chance(1, 3));
    // real time: a message that can never fit would spin for the 5 s send timeout unless drop-on-overflow is set
    for (auto & o : c.prog.ops) {
        if (o.op != "fsr" || c.drop) continue;
        const DType * dt = nullptr;
        for (auto & d : c.prog.ops) if (d.op == "signal" && d.id == o.sig) dt = dtype_by_name(d.dtype);
        if (!dt) continue;
        uint64_t max_bytes = TWR_QUEUE_BYTES - 120;
        if ((uint64_t) o.n * dt->bits / 8 > max_bytes) o.n = (uint32_t) (max_bytes * 8 / dt->bits);
    }
    // sample ids / pattern offsets must stay contiguous after clamping
    std::map<int, int64_t> first, written;
    for (auto & o : c.prog.ops) {
        if (o.op != "fsr") continue;
        if (!first.count(o.sig)) { first[o.sig] = o.sample_id; written[o.sig] = 0; }
        o.sample_id = first[o.sig] + written[o.sig]; o.poff = written[o.sig];
        written[o.sig] += o.n;
    }
    mj::Value v = twr_case_json(c);
    v.set("harness", "C06r");
    return mj::dump(v);
}

CaseOutcome prop_execute(const std::string & case_json) {
    CaseOutcome oc;
    TwrCase c = twr_case_from(mj::parse(case_json));
    vfs::reset();
    const char * path = "c06r_twr.jls";
    struct Sub { size_t op_index; int32_t rc; };
    std::vector<Sub> subs;
    std::mutex subs_mu;
    Model m;
    Writer w;
    int rec0 = std::min(g_nrec.load(), 16);
    int32_t open_rc = w.open("twr", path);
    const uintptr_t twr_base = (uintptr_t) w.twr;
    if (open_rc) { oc.fail("open", strf("jls_twr_open returned %d", open_rc)); vfs::reset(); return oc; }
    if (c.drop) jls_twr_flags_set(w.twr, JLS_TWR_FLAG_DROP_ON_OVERFLOW);
    const std::vector<uint32_t> & ch = c.sch.choices;
    auto perturb = [&](size_t k) {
        uint32_t x = ch.empty() ? 0 : ch[k % ch.size()];
        if ((x & 3) == 1) sched_yield();
        else if ((x & 15) == 2) usleep(50 + (x >> 8) % 1500);
    };
    auto issue = [&](size_t k) -> int32_t {
        const Op & o = c.prog.ops[k];
        perturb(k);
        int32_t rc = exec_op(w, o, m);
        std::lock_guard<std::mutex> l(subs_mu);
        subs.push_back({k, rc});
        return rc;
    };
    std::vector<size_t> second_ops;
    if (c.second_sig >= 0) {
        bool defined = false;
        for (size_t k = 0; k < c.prog.ops.size(); ++k) {
            const Op & o = c.prog.ops[k];
            if (o.op == "signal" && o.id == c.second_sig) { defined = true; continue; }
            if (defined && (o.op == "fsr" || o.op == "utc" || o.op == "omit" || o.op == "flush" || (o.op == "anno" && o.sig == c.second_sig)) && o.sig == c.second_sig) second_ops.push_back(k);
        }
    }
    std::set<size_t> second_set(second_ops.begin(), second_ops.end());
    std::thread second;
    bool started = false;
    for (size_t k = 0; k < c.prog.ops.size(); ++k) {
        if (second_set.count(k)) {
            if (!started) { started = true; second = std::thread([&]() { for (size_t q : second_ops) issue(q); }); }
            continue;
        }
        const Op & o = c.prog.ops[k];
        int32_t rc = issue(k);
        if (rc == 0 && !started && (o.op == "source" || o.op == "signal")) m.apply(o);   // definitions precede the second thread (generator invariant)
    }
    if (started) second.join();
    int32_t close_rc = w.close();
    if (close_rc) oc.fail("close", strf("jls_twr_close returned %d", close_rc));
    // ThreadSanitizer reports raised during this case
    int rec1 = std::min(g_nrec.load(), 16);
    for (int k = rec0; k < rec1; ++k) {
        const RaceRec & r = g_rec[k];
        if (std::string(r.kind) != "data-race") { oc.tags.push_back(std::string("real:tsan_report_not_judged:") + r.kind); continue; }
        // the control block is one heap allocation: [control fields][struct jls_mrb_s][queue bytes]; the queue part is judged
        uintptr_t a = (uintptr_t) r.addr[0];
        bool in_twr_block = r.loc_size && r.loc_start == twr_base;
        uintptr_t queue_start = twr_base + (r.loc_size >= TWR_QUEUE_BYTES + sizeof(struct jls_mrb_s) ? r.loc_size - TWR_QUEUE_BYTES - sizeof(struct jls_mrb_s) : 0);
        if (in_twr_block && a < queue_start) { oc.tags.push_back("real:control_field_race_not_judged"); oc.counters.push_back({"control_field_races_observed", 1}); continue; }
        oc.fail("data_race", strf("ThreadSanitizer: unsynchronised %s of %d bytes at %s  vs  %s of %d bytes at %s; the address is in %s",
                                  r.write[0] ? "write" : "read", r.size[0], where(r, 0).c_str(), r.write[1] ? "write" : "read", r.size[1], where(r, 1).c_str(),
                                  in_twr_block ? "the message queue of the threaded writer" : "memory outside the threaded writer's control block (writer / file state)"));
    }

    // content: equals the file written synchronously from the accepted calls (per-signal order = submission order of its thread)
    uint64_t accepted_bytes = 0; bool refused = false;
    if (oc.ok) {
        Program ref; ref.via = "sync"; ref.close = true;
        // thread 0's accepted ops in program order, then the second thread's: the comparison is per signal
        std::vector<Sub> ordered = subs;
        std::stable_sort(ordered.begin(), ordered.end(), [](const Sub & a, const Sub & b) { return a.op_index < b.op_index; });
        for (auto & s : ordered) {
            const Op & o = c.prog.ops[s.op_index];
            if (s.rc) { refused = true; continue; }
            if (o.op == "flush") continue;
            ref.ops.push_back(o);
            if (o.op == "fsr") { const DType * dt = nullptr; for (auto & d : c.prog.ops) if (d.op == "signal" && d.id == o.sig) dt = dtype_by_name(d.dtype); accepted_bytes += 32 + (dt ? (uint64_t) o.n * dt->bits / 8 : 0); }
            else accepted_bytes += 32 + o.data.n;
        }
        Model m2;
        ExecResult er = run_program(ref, "c06r_ref.jls", m2, false);
        if (er.open_rc) oc.fail("reference", "reference writer failed");
        else {
            std::vector<uint8_t> tb = vfs::get(path);
            dec::File tf = dec::decode(tb);
            if (!tf.violations.empty() || !tf.closed) oc.fail("file", strf("the file produced by the threaded writer on real threads is not a well-formed closed file: %s", tf.violations.empty() ? "no END/length" : tf.violations[0].c_str()));
            else {
                Dump a = dump_file(path, 0), b = dump_file("c06r_ref.jls", 0);
                std::string d = dump_compare(a, b, false, "the threaded-writer file (real threads)", "the synchronous reference");
                if (!d.empty()) oc.fail("content", d);
            }
        }
    }
    oc.nontrivial = accepted_bytes > 2 * TWR_QUEUE_BYTES || refused;
    oc.tags.push_back("real_threads_tsan");
    if (accepted_bytes > 2 * TWR_QUEUE_BYTES) oc.tags.push_back("real:queue_wrapped");
    if (refused) oc.tags.push_back("real:submission_refused");
    if (started) oc.tags.push_back("real:two_producers");
    if (c.drop) oc.tags.push_back("real:drop_on_overflow");
    bool has_flush = false; for (auto & o : c.prog.ops) if (o.op == "flush") has_flush = true;
    if (has_flush) oc.tags.push_back("real:flush");
    vfs::reset();
    return oc;
}
