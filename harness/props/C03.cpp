// C03 — a writer stopped at any point leaves a file that reopens to a correct prefix.
#include "../crash_common.h"

const char * prop_id() { return "C03"; }
const char * prop_rule() {
    return "case = general writer program (1-3 signals of mixed types, small decimations so that 1-4 summary levels are on disk, omit "
           "toggles, annotations/UTC/user data interleaved, closed or not) + a selection (stride, phase) of backend-write boundaries; for "
           "each selected boundary k the images (k, b) are built by exact replay of the write log: b = 0 and byte prefixes of write k+1 "
           "(every byte for writes <= 40 bytes, else 1, len/2, len-1 and 8-byte multiples at both ends); each image is opened with "
           "jls_rd_open in a fresh VFS file; oracle = prefix relation against the model + loss bound; non-trivial = image whose last "
           "valid chunk is not END and which holds >= 1 complete DATA chunk; distinct = (case hash); images counted separately";
}

namespace {

struct ImgStats { long images = 0, opened = 0, refused = 0, nontrivial = 0, strong = 0; std::map<std::string, long> by_kind; };

bool is_subsequence_annos(const std::vector<AnnoM> & got, const std::vector<AnnoM> & written, std::string & why) {
    size_t j = 0;
    for (size_t i = 0; i < got.size(); ++i) {
        while (j < written.size() && !anno_equal(got[i], written[j])) ++j;
        if (j >= written.size()) { why = strf("returned annotation %zu %s is not one of the written ones (in order)", i, anno_str(got[i]).c_str()); return false; }
        ++j;
    }
    return true;
}

// returns "" if the image satisfies the property, else description; known = id of an open finding that explains it
std::string check_image(const Program & p, const LoggedRun & lr, const CrashPoint & cp, const char * img_path, bool & opened, bool & nontrivial, bool & strong_applies, std::string & clause, std::string & known) {
    opened = false; nontrivial = false; strong_applies = false;
    vfs::io_budget(3000000);
    Dump d = dump_file(img_path, 0);
    bool exceeded = vfs::budget_exceeded();
    vfs::io_budget(0);
    if (exceeded) { clause = "no_progress"; return "opening/reading the image issued more than 3e6 backend calls (no progress)"; }
    // strong clause precondition: boundary, and every definition op of the program completed before the crash
    int last_def = -1;
    for (size_t k = 0; k < p.ops.size(); ++k) if (p.ops[k].op == "source" || p.ops[k].op == "signal") last_def = (int) k;
    strong_applies = cp.b == 0 && cp.started_op >= 0 && cp.completed_ops > last_def;
    if (d.open_rc) {
        if (strong_applies) { clause = "open_refused"; return strf("crash between two complete writes with all definitions on disk, but jls_rd_open returns %d %s", d.open_rc, ec_name(d.open_rc)); }
        return "";
    }
    opened = true;
    const Model & m = lr.model;
    // definitions returned are among those written
    for (auto & s : d.sources) {
        if (s.first == 0) continue;
        auto it = m.sources.find(s.first);
        if (it == m.sources.end()) { clause = "definitions"; return strf("source %d is returned but was never written", s.first); }
        auto S = [](const OptStr & o) { return o.null ? std::string() : o.str(); };
        const Op & w = it->second;
        if (s.second[0] != S(w.name) || s.second[1] != S(w.vendor) || s.second[2] != S(w.model) || s.second[3] != S(w.version) || s.second[4] != S(w.serial)) { clause = "definitions"; return strf("source %d strings are altered", s.first); }
    }
    for (auto & kv : d.sigs) {
        int id = kv.first;
        const SigDump & g = kv.second;
        const std::vector<AnnoM> * wa = nullptr;
        int64_t off_w = 0;
        if (id == 0) wa = &m.anno0;
        else {
            auto it = m.sigs.find(id);
            if (it == m.sigs.end()) { clause = "definitions"; return strf("signal %d is returned but was never written", id); }
            const SigM & s = it->second;
            auto S = [](const OptStr & o) { return o.null ? std::string() : o.str(); };
            if (g.def.data_type != (s.dt->code | ((uint32_t) (s.def.q & 0xff) << 16)) || g.def.signal_type != s.def.stype || g.def.source_id != s.def.src || g.name != S(s.def.name) || g.units != S(s.def.units)) { clause = "definitions"; return strf("signal %d definition is altered", id); }
            wa = &s.annos;
            if (s.fsr) {
                if (g.len_rc) { clause = "length"; return strf("signal %d: jls_rd_fsr_length returns %d %s on a file that opened", id, g.len_rc, ec_name(g.len_rc)); }
                int64_t submitted = submitted_by(p, lr.er.rcs, id, cp.completed_ops + 1);
                if (g.len > submitted) { clause = "length"; return strf("signal %d: %lld samples exposed, only %lld were submitted when the writer stopped", id, (long long) g.len, (long long) submitted); }
                bool omit_req = false;
                for (auto & o : p.ops) if (o.op == "omit" && o.sig == id && o.enable) omit_req = true;
                bool may_omit = omit_req || s.dt->bits <= 8;
                if (g.len > 0) {
                    if (g.read_rc) { clause = "read"; return strf("signal %d: reading [0,%lld) of the reported length returns %d %s", id, (long long) g.len, g.read_rc, ec_name(g.read_rc)); }
                    if (s.has_data && g.def.sample_id_offset != s.first_id) { clause = "samples"; return strf("signal %d: first sample id %lld, written %lld", id, (long long) g.def.sample_id_offset, (long long) s.first_id); }
                    if (!omit_req) {   // blocks omitted on request are synthesised by the reader: not comparable
                        std::vector<uint8_t> want = s.samples.window(0, g.len);
                        int64_t bad = -1;
                        for (int64_t k = 0; k < g.len; ++k) {
                            uint64_t a = window_sample(*s.dt, g.samples, k), b = window_sample(*s.dt, want, k);
                            if (a != b && !(s.is_gap[(size_t) k] && s.dt->kind == 'f' && std::isnan(sample_to_double(*s.dt, a)))) { bad = k; break; }
                        }
                        if (bad >= 0) { clause = "samples"; return strf("signal %d (%s): sample %lld of the exposed prefix (%lld samples) reads 0x%llx, written 0x%llx", id, s.dt->name, (long long) bad, (long long) g.len,
                                                                     (unsigned long long) window_sample(*s.dt, g.samples, bad), (unsigned long long) window_sample(*s.dt, want, bad)); }
                    }
                    // statistics of the whole exposed prefix (first battery entry: start 0, incr len, count 1)
                    if (summarisable(*s.dt) && !g.stats.empty() && g.stats[0].rc == 0 && !omit_req) {
                        WinStats ws = model_stats(s, 0, g.len);
                        if (ws.nfinite == ws.n) {
                            StatTol tol = stat_tol(*s.dt, ws, 6, (double) std::max<uint32_t>(g.def.sample_decimate_factor, g.def.summary_decimate_factor));
                            bool f64s = summary_is_f64(*s.dt);
                            double mn = f64s ? ws.mn : (double) (float) ws.mn, mx = f64s ? ws.mx : (double) (float) ws.mx;
                            const std::vector<double> & v = g.stats[0].v;
                            if (fabs(v[0] - (double) ws.mean) > tol.mean * 4 || v[2] != mn || v[3] != mx) {
                                clause = "statistics";
                                return strf("signal %d (%s): statistics of the exposed prefix [0,%lld): mean %.10g min %.10g max %.10g; submitted samples give mean %.10Lg min %.10g max %.10g", id, s.dt->name, (long long) g.len, v[0], v[2], v[3], ws.mean, mn, mx);
                            }
                        }
                    }
                    nontrivial = true;
                }
                // strong clause: loss bound
                if (strong_applies) {
                    int64_t S = submitted_by(p, lr.er.rcs, id, cp.completed_ops);
                    int64_t spd = g.def.samples_per_data;
                    int64_t bound = (S / spd) * spd - spd;
                    if (g.len < bound) {
                        int64_t l1 = (int64_t) g.def.entries_per_summary * g.def.sample_decimate_factor;
                        int64_t relaxed = (S / l1) * l1 - l1;
                        clause = "loss_bound";
                        if (may_omit && g.len >= relaxed) known = "KF-C03-2";
                        return strf("signal %d (%s, spd %lld): %lld samples were submitted by completed calls, %lld are exposed; more than the buffered samples plus one block are lost (bound %lld)", id, s.dt->name, (long long) spd, (long long) S, (long long) g.len, (long long) bound);
                    }
                }
                // UTC: ordered subsequence
                size_t j = 0;
                for (size_t i = 0; i < g.utcs.size(); ++i) {
                    while (j < s.utcs.size() && !(s.utcs[j].id == g.utcs[i].id && s.utcs[j].utc == g.utcs[i].utc)) ++j;
                    if (j >= s.utcs.size()) { clause = "utc"; return strf("signal %d: returned UTC entry %zu (%lld,%lld) is not one of the written ones (in order)", id, i, (long long) g.utcs[i].id, (long long) g.utcs[i].utc); }
                    ++j;
                }
            }
        }
        (void) off_w;
        std::string why;
        if (!is_subsequence_annos(g.annos, *wa, why)) { clause = "annotations"; return strf("signal %d: %s", id, why.c_str()); }
    }
    {   // user data: ordered subsequence
        size_t j = 0;
        for (size_t i = 0; i < d.user.size(); ++i) {
            while (j < m.user.size() && !(m.user[j].meta == d.user[i].meta && m.user[j].stor == d.user[i].stor && m.user[j].data == d.user[i].data)) ++j;
            if (j >= m.user.size()) { clause = "user_data"; return strf("returned user-data item %zu is not one of the written ones (in order)", i); }
            ++j;
        }
    }
    return "";
}

}  // namespace

std::string prop_generate(Tape & t, int size) {
    gen_allow_q() = true;   // integer signals may carry a fixed-point exponent in their data type
    GenOpts go;
    go.allow_big = false;
    go.allow_gaps = size > 30;
    go.sample_budget = 9000;
    go.allow_vsr = true;
    bool big = t.chance(1, 5);
    Program p = big ? gen_bigblock(t, size) : gen_general(t, size, go);
    p.close = t.chance(1, 2);
    mj::Value c = mj::Value::object();
    c.set("program", program_to_json(p));
    c.set("stride", (long long) (big ? t.pick(std::vector<int64_t>{1, 2, 3}) : t.pick(std::vector<int64_t>{7, 11, 13, 17, 5, 3})));
    c.set("phase", (long long) t.range(0, 16));
    return mj::dump(c);
}

CaseOutcome prop_execute(const std::string & case_json) {
    CaseOutcome oc;
    mj::Value c = mj::parse(case_json);
    Program p = program_from_json(c.at("program"));
    size_t stride = (size_t) c.get_int("stride", 7), phase = (size_t) c.get_int("phase", 0);
    bool thorough = c.get_int("thorough", 0) != 0;
    const std::string path = "c03.jls";
    LoggedRun lr = logged_run(p, path.c_str());
    if (!lr.er.err.empty()) { oc.fail("write", lr.er.err); vfs::reset(); return oc; }
    std::vector<CrashPoint> pts = crash_points(lr.log, path, stride, phase, thorough);
    ImgStats st;
    for (auto & cp : pts) {
        std::vector<uint8_t> img = vfs::crash_image(lr.log, path, cp.k, cp.b);
        vfs::put("c03_img.jls", img);
        bool opened, nt, strong; std::string clause, known;
        std::string r = check_image(p, lr, cp, "c03_img.jls", opened, nt, strong, clause, known);
        ++st.images; if (opened) ++st.opened; else ++st.refused; if (nt) ++st.nontrivial; if (strong) ++st.strong;
        ++st.by_kind[cp.kind + (cp.b ? ":torn" : ":boundary")];
        if (!r.empty() && known.empty() && cp.inplace && cp.b > 0 && (clause == "length" || clause == "read")) known = "KF-C03-1";   // an error code, never wrong data
        if (!r.empty()) {
            oc.fail(clause, strf("crash point k=%zu b=%zu (%s of %zu bytes, %d program ops completed): %s", cp.k, cp.b, cp.kind.c_str(), cp.op_len, cp.completed_ops, r.c_str()));
            oc.known = known;
            break;
        }
    }
    oc.nontrivial = st.nontrivial > 0;
    oc.counters.push_back({"images", st.images});
    oc.counters.push_back({"images_opened", st.opened});
    oc.counters.push_back({"images_refused", st.refused});
    oc.counters.push_back({"images_nontrivial", st.nontrivial});
    oc.counters.push_back({"images_strong_clause", st.strong});
    for (auto & kv : st.by_kind) oc.counters.push_back({"images_" + kv.first, kv.second});
    vfs::reset();
    return oc;
}
