/* The table-driven CRC-32C build of the library (JLS_OPTIMIZE_CRC_DISABLE) compiled under other
 * symbol names so that it can live next to the SSE4.2 build in one process. */
#define jls_crc32c jls_crc32c_sw
#define jls_crc32c_hdr jls_crc32c_hdr_sw
#define JLS_OPTIMIZE_CRC_DISABLE 1
#include "crc32c.c"

const uint32_t * verif_crc_table(int k) {
    switch (k) {
        case 0: return crc_tableil8_o32;
        case 1: return crc_tableil8_o40;
        case 2: return crc_tableil8_o48;
        case 3: return crc_tableil8_o56;
        case 4: return crc_tableil8_o64;
        case 5: return crc_tableil8_o72;
        case 6: return crc_tableil8_o80;
        case 7: return crc_tableil8_o88;
        default: return 0;
    }
}
