// C02 — summaries and statistics describe exactly the samples that were written.
#include "../gen_common.h"
#include "../stats_oracle.h"

const char * prop_id() { return "C02"; }
const char * prop_rule() {
    return "case = one FSR signal of a summarisable type (all but 24-bit), definition shape minimal/small/defaults chosen together with a stream "
           "length that reaches 1..5 summary levels, gap-free sample patterns (random, ramp, constant, alternating, extremes, large offset), "
           "written in generated partitions; then ~40 statistics requests (start, increment, count) with increments around "
           "sdf*sumdf^k*{1, 1+-eps, 2.5} and counts {1,2,24,25,26,100}, starts aligned/unaligned to entries, blocks and summary chunks, "
           "windows ending at the last sample; one case in six leaves the writer unclosed so that the reader repairs the file and serves rebuilt summaries; oracle = exact long-double statistics of the model windows with stated tolerances; "
           "non-trivial = request served from level >= 1 or unaligned at either edge; distinct = case hash";
}

namespace {
struct Req { int64_t start, incr, count; };
}

std::string prop_generate(Tape & t, int size) {
    Program p;
    p.ops.push_back(gen_source(t, 1));
    static const char * TY[] = {"f32", "u8", "i16", "f64", "u16", "u32", "i32", "i8", "u4", "u1", "i4", "u64", "i64"};
    const DType * dt = dtype_by_name(TY[t.below(13)]);
    int shape = (int) t.weighted({7, 3, 1, 0});
    Op def = gen_signal(t, 1, 1, *dt, shape);
    StoredDef sd = predict_stored(def, *dt);
    p.ops.push_back(def);
    int64_t first = gen_first_id(t);
    if (first > (1LL << 58)) first = 1LL << 43;
    if (first < -(1LL << 58)) first = -(1LL << 43);
    // length: reach a generated number of levels
    int levels = (int) t.weighted({2, 3, 3, 2, 1}) + 1;
    int64_t l1 = (int64_t) sd.eps * sd.sdf;
    int64_t need = sd.sdf * 2;
    if (levels >= 2) { need = l1; for (int l = 3; l <= levels; ++l) need *= sd.sumdf; need += sd.sdf; }
    int64_t cap = 4000 + (int64_t) size * 3500;   // up to ~350k samples for narrow types
    if (dt->bits >= 32) cap /= 2;
    if (size >= 70 && levels >= 4 && dt->bits <= 32 && t.chance(1, 2)) cap = 1300000;   // deep shape: lets level 4 serve requests (25 * sdf * sumdf^3 samples)
    if (need > cap) need = cap;
    int64_t total = need + t.range(0, need / 2 + 30);
    if (total > cap) total = cap;
    if (total < 1) total = 1;
    // one case in sixty (costly: > 1 M samples): a level-1 SUMMARY chunk beyond the reader's initial 1 MiB chunk buffer
    // (entries_per_summary > 65 536, enough samples to fill it).  A request served from level 2 whose first window is unaligned makes the
    // reader descend to level 1 for the edge, which has to grow the buffer the level-2 entries are being read from.
    bool bigsummary = size >= 30 && t.chance(1, 60);
    if (bigsummary) {
        dt = dtype_by_name(t.pick(std::vector<std::string>{"u8", "i8", "u4", "f32", "i16"}).c_str());
        def = gen_signal(t, 1, 1, *dt, 0);
        def.spd = (uint32_t) t.pick(std::vector<int64_t>{64, 128, 512}); def.sdf = 16; def.eps = (uint32_t) t.pick(std::vector<int64_t>{66000, 70000, 80000}); def.sumdf = 10;
        sd = predict_stored(def, *dt);
        p.ops.back() = def;
        total = (int64_t) sd.sdf * (65600 + t.range(0, 4000)) + t.range(0, 300);
    }
    Pattern pat = gen_pattern(t, *dt, {"random", "random", "ramp", "const", "alt", "extremes", "small", "offset", "offset", "blocks"}, sd.spd);
    if (dt->kind == 'f' && pat.kind == "extremes" && dt->bits == 32) pat.kind = "random";
    std::vector<uint32_t> parts = gen_partition(t, total, sd.spd, 12);
    int64_t written = 0;
    for (auto n : parts) { Op o; o.op = "fsr"; o.sig = 1; o.sample_id = first + written; o.n = n; o.pat = pat; o.poff = written; p.ops.push_back(o); written += n; }
    // requests, relative to the structure (resolved against the stored definition at execution)
    mj::Value reqs = mj::Value::array();
    int nreq = (int) t.range(10, 40);
    for (int k = 0; k < nreq; ++k) {
        mj::Value r = mj::Value::object();
        r.set("lvl", (long long) t.range(0, 5));                                     // increment ~ sdf * sumdf^(lvl-1) (0: below sdf)
        r.set("im", (long long) t.pick(std::vector<int64_t>{1000, 1000, 999, 1001, 2500, 500, 1500, 3000}));   // increment multiplier per mille
        r.set("cnt", (long long) t.pick(std::vector<int64_t>{1, 1, 1, 2, 24, 25, 26, 100, 3, 50}));
        r.set("sa", (long long) t.weighted({2, 3, 2, 2, 2}));                        // start anchor: 0, entry-aligned, block-aligned, summary-chunk aligned, so that it ends at the last sample
        r.set("sk", (long long) t.range(0, 200));
        r.set("sd", (long long) t.pick(std::vector<int64_t>{0, 0, 1, -1, 3, -3}));
        if (bigsummary && k < 6) { r.set("lvl", (long long) 2); r.set("im", (long long) 1000); r.set("cnt", (long long) t.pick(std::vector<int64_t>{25, 26, 30})); r.set("sd", (long long) t.pick(std::vector<int64_t>{3, -3, 1})); }
        reqs.push(r);
    }
    // one case in six leaves the writer unclosed: the reader repairs the file on open and rebuilds the upper summary levels itself
    // (jls_core_repair_fsr); the statistics it then serves must describe the written samples of the recovered prefix just the same
    if (t.chance(1, 6)) p.close = false;
    mj::Value c = mj::Value::object();
    c.set("program", program_to_json(p));
    c.set("reqs", reqs);
    return mj::dump(c);
}

CaseOutcome prop_execute(const std::string & case_json) {
    CaseOutcome oc;
    mj::Value c = mj::parse(case_json);
    Program p = program_from_json(c.at("program"));
    vfs::reset();
    Model m;
    const char * path = "c02.jls";
    ExecResult er = run_program(p, path, m, true);
    if (!er.err.empty() || er.close_rc) { oc.fail("write", er.err); vfs::reset(); return oc; }
    if (m.sigs.empty()) { vfs::reset(); return oc; }
    const SigM & s = m.sigs.begin()->second;
    int sig = m.sigs.begin()->first;
    const DType & dt = *s.dt;
    if (!summarisable(dt)) { vfs::reset(); return oc; }
    Reader rd;
    int32_t rc = rd.open(path);
    if (rc) { if (!p.close) { oc.tags.push_back("unclosed_open_refused"); vfs::reset(); return oc; }   // C03 decides when an unclosed file must open
              oc.fail("open", strf("open %d", rc)); vfs::reset(); return oc; }
    struct jls_signal_def_s sd = {};
    if (jls_rd_signal(rd.rd, (uint16_t) sig, &sd)) { if (!p.close) { vfs::reset(); return oc; } oc.fail("open", "the signal is missing from the closed file"); vfs::reset(); return oc; }
    int64_t len = s.length();
    if (!p.close) {
        // repaired file: the recovered signal is a prefix of what was written (C03); requests are placed inside the recovered length
        int64_t rl = 0;
        if (jls_rd_fsr_length(rd.rd, (uint16_t) sig, &rl) || rl > len) { oc.fail("repaired_length", strf("repaired file reports length %lld, %lld samples were written", (long long) rl, (long long) len)); vfs::reset(); return oc; }
        len = rl;
        oc.tags.push_back("repaired_file");
    }
    int64_t sdf = sd.sample_decimate_factor, sumdf = sd.summary_decimate_factor, spd = sd.samples_per_data, l1 = (int64_t) sd.entries_per_summary * sdf;
    oc.tags.push_back(std::string("dtype:") + dt.name);
    { int lv = 0; int64_t span = sdf; while (len >= span && lv < 8) { ++lv; span = (lv == 1) ? l1 : span * sumdf; } oc.tags.push_back(strf("levels_on_disk:%d", lv)); }
    bool any_nt = false;
    for (auto & rv : c.at("reqs").a) {
        if (!oc.ok || len < 2) break;
        int lvl = (int) rv.get_int("lvl", 0);
        int64_t base = lvl == 0 ? std::max<int64_t>(1, sdf / 3) : sdf;
        for (int l = 2; l <= lvl; ++l) base *= sumdf;
        int64_t incr = base * rv.get_int("im", 1000) / 1000;
        if (incr < 1) incr = 1;
        int64_t count = rv.get_int("cnt", 1);
        if (incr * count > len) { if (count > 1) count = std::max<int64_t>(1, len / incr); if (incr * count > len) incr = len / count; if (incr < 1) { incr = 1; count = std::min<int64_t>(count, len); } }
        int64_t span = incr * count;
        int64_t start;
        int64_t sk = rv.get_int("sk", 0);
        switch ((int) rv.get_int("sa", 0)) {
            case 0: start = 0; break;
            case 1: start = (sk * sdf) % (len - span + 1); start -= start % sdf; break;
            case 2: start = (sk * spd) % (len - span + 1); start -= start % spd; break;
            case 3: start = (sk * l1) % (len - span + 1); start -= start % l1; break;
            default: start = len - span; break;
        }
        start += rv.get_int("sd", 0);
        if (start < 0) start = 0;
        if (start + span > len) start = len - span;
        // which level will serve it (documented rule)
        int level = 0; { int64_t next = sdf, dur = incr * count; while (incr >= next && dur >= 25 * next) { ++level; next *= sumdf; } }
        std::vector<double> out((size_t) count * 4, -777.0);
        HeapBuf hb((size_t) count * 4 * sizeof(double));
        rc = jls_rd_fsr_statistics(rd.rd, (uint16_t) sig, start, incr, (double *) hb.p, count);
        memcpy(out.data(), hb.p, (size_t) count * 4 * sizeof(double));
        std::string rq = strf("statistics(start %lld, incr %lld, count %lld) on %s len %lld (spd %lld sdf %lld eps %u sumdf %lld, served from level %d)", (long long) start, (long long) incr, (long long) count, dt.name, (long long) len,
                              (long long) spd, (long long) sdf, sd.entries_per_summary, (long long) sumdf, level);
        if (rc) {
            if (dt.bits == 64) { oc.tags.push_back("64bit_error_accepted"); continue; }   // the reader cannot compute raw-sample statistics of 64-bit types
            oc.fail("error", strf("%s returns %d %s although the request lies inside the signal", rq.c_str(), rc, ec_name(rc)));
            break;
        }
        oc.tags.push_back(strf("served_level:%d", level));
        if (!p.close) oc.tags.push_back(strf("repaired_file_served_level:%d", level));
        bool unaligned = (start % sdf) || ((start + span) % sdf);
        if (level >= 1 || unaligned) any_nt = true;
        bool f64s = summary_is_f64(dt);
        double nterms = (double) std::max(sdf, sumdf);
        if (count == 1) {
            WinStats ws = model_stats(s, start, incr);
            if (ws.nfinite != ws.n) continue;
            StatTol tol = stat_tol(dt, ws, level + 1, nterms);
            double wmn = f64s ? ws.mn : (double) (float) ws.mn, wmx = f64s ? ws.mx : (double) (float) ws.mx;
            double mean = out[0], sd_ = out[1], mn = out[2], mx = out[3];
            if (mn != wmn || mx != wmx) { oc.fail("minmax", strf("%s: min/max %.10g/%.10g, the window holds %.10g/%.10g", rq.c_str(), mn, mx, wmn, wmx)); break; }
            if (!(fabs(mean - (double) ws.mean) <= tol.mean)) { oc.fail("mean", strf("%s: mean %.12g, exact %.12Lg (tolerance %g)", rq.c_str(), mean, ws.mean, tol.mean)); break; }
            double sigma = sqrt((double) ws.var), lo = sqrt((double) (sdf - 1) / (double) sdf) * sigma;
            if (incr == 1) { if (!(sd_ == 0.0)) { oc.fail("std", strf("%s: std %.10g of a single sample", rq.c_str(), sd_)); break; } continue; }
            if (!(sd_ >= lo - tol.std_abs - 1e-6 * sigma && sd_ <= sigma + tol.std_abs + 1e-6 * sigma)) { oc.fail("std", strf("%s: std %.10g outside [%.10g, %.10g] (sample std of the window and its sqrt((d-1)/d) multiple)", rq.c_str(), sd_, lo, sigma)); break; }
        } else {
            // whole range exact mean
            WinStats whole = model_stats(s, start, span);
            if (whole.nfinite != whole.n) continue;
            StatTol tolw = stat_tol(dt, whole, level + 1, nterms);
            long double avg = 0;
            for (int64_t j = 0; j < count; ++j) avg += out[(size_t) j * 4];
            avg /= count;
            if (!(fabsl(avg - whole.mean) <= tolw.mean * 2)) { oc.fail("mean_of_means", strf("%s: average of the entry means %.12Lg, exact mean of the range %.12Lg (tolerance %g)", rq.c_str(), avg, whole.mean, tolw.mean * 2)); break; }
            for (int64_t j = 0; j < count && oc.ok; ++j) {
                int64_t a = start + (j - 1) * incr, b = start + (j + 2) * incr;
                if (a < 0) a = 0;
                if (b > len) b = len;
                WinStats ww = model_stats(s, a, b - a);
                double mean = out[(size_t) j * 4], mn = out[(size_t) j * 4 + 2], mx = out[(size_t) j * 4 + 3];
                double wmn = f64s ? ww.mn : (double) (float) ww.mn, wmx = f64s ? ww.mx : (double) (float) ww.mx;
                double tt = tolw.mean;
                if (!(mean >= wmn - tt && mean <= wmx + tt && mn >= wmn - tt && mx <= wmx + tt && mn <= mx)) {
                    oc.fail("entry_bounds", strf("%s: entry %lld mean %.10g min %.10g max %.10g is not within [%.10g, %.10g], the extremes of its window widened by one increment", rq.c_str(), (long long) j, mean, mn, mx, wmn, wmx));
                    break;
                }
            }
        }
    }
    rd.close();
    oc.nontrivial = any_nt;
    vfs::reset();
    return oc;
}
