// C19 — repair converges and a good file is never modified by reading.
#include "../crash_common.h"
#include <unistd.h>
#include <sys/stat.h>
#include <fcntl.h>

const char * prop_id() { return "C19"; }
const char * prop_rule() {
    return "case = general writer program; (a) if closed: the file is opened and read by a generated read script with the VFS log on: no "
           "mutating backend operation may occur and the bytes must be identical afterwards (one class repeats this on a real file through "
           "the genuine backend); (b) crash images (exact write-log replays at selected boundaries, b in {0, 1, len/2, len-1}) that open "
           "successfully are opened a second and third time: after the first open the independent decoder must accept the file as a closed "
           "file, the later opens must issue no mutating operation and return a dump identical to the first open's; non-trivial = repaired "
           "image, or a closed file read with >= 1 statistics call; distinct = case hash; images counted separately";
}

std::string prop_generate(Tape & t, int size) {
    gen_allow_q() = true;   // integer signals may carry a fixed-point exponent in their data type
    GenOpts go;
    go.allow_big = size >= 70;
    go.allow_gaps = true;
    go.sample_budget = 9000;
    bool big = t.chance(1, 6);      // ~1-5 KiB data chunks: chunk headers at the edges of the reader's 1 KiB backward-scan windows
    Program p = big ? gen_bigblock(t, size) : gen_general(t, size, go);
    mj::Value c = mj::Value::object();
    size_t mode = t.weighted({3, 6, 1});
    static const char * M[] = {"closed", "images", "real"};
    c.set("mode", M[mode]);
    p.close = (mode != 1) ? true : t.coin();
    c.set("program", program_to_json(p));
    c.set("stride", (long long) (big ? t.pick(std::vector<int64_t>{2, 3, 5}) : t.pick(std::vector<int64_t>{23, 31, 47, 17})));
    c.set("phase", (long long) t.range(0, 46));
    c.set("rseed", (long long) t.range(1, 1000));
    return mj::dump(c);
}

namespace {
std::string read_only_check(const char * path, int rseed, bool & stats_called) {
    std::vector<uint8_t> before = vfs::get(path);
    vfs::log_clear();
    vfs::log_enable(true);
    Dump d = dump_file(path, rseed);
    Dump d2 = dump_file(path, rseed + 1);
    vfs::log_enable(false);
    if (d.open_rc) return strf("a properly closed file does not open: %d", d.open_rc);
    for (auto & o : vfs::log()) {
        if (o.path != path) continue;
        if (o.kind == vfs::OP_WRITE || o.kind == vfs::OP_TRUNCATE) return strf("reading a closed file issued a backend %s at offset %lld (%zu bytes)", o.kind == vfs::OP_WRITE ? "write" : "truncate", (long long) o.off, o.data.size());
        if (o.kind == vfs::OP_OPEN && (o.off & (O_RDWR | O_WRONLY))) return "reading a closed file opened it for writing";
    }
    if (vfs::get(path) != before) return "the bytes of a closed file changed while reading it";
    std::string r = dump_compare(d, d2, false, "the first read", "the second read");
    if (!r.empty()) return "two reads of the same closed file disagree: " + r;
    for (auto & kv : d.sigs) if (!kv.second.stats.empty()) stats_called = true;
    return "";
}
}

CaseOutcome prop_execute(const std::string & case_json) {
    CaseOutcome oc;
    mj::Value c = mj::parse(case_json);
    Program p = program_from_json(c.at("program"));
    std::string mode = c.get_str("mode", "closed");
    int rseed = (int) c.get_int("rseed", 1);
    const std::string path = "c19.jls";
    oc.tags.push_back("mode:" + mode);
    if (mode == "closed" || mode == "real") {
        vfs::reset();
        Model m;
        ExecResult er = run_program(p, path.c_str(), m, true);
        if (!er.err.empty() || er.close_rc) { oc.fail("write", er.err.empty() ? "close failed" : er.err); vfs::reset(); return oc; }
        bool stats_called = false;
        if (mode == "closed") {
            std::string r = read_only_check(path.c_str(), rseed, stats_called);
            if (!r.empty()) oc.fail("closed_file_modified", r);
            oc.nontrivial = stats_called;
        } else {
            // the genuine backend: real file, real syscalls
            char tmpl[] = "/tmp/verif-c19-XXXXXX";
            int fd = mkstemp(tmpl);
            if (fd < 0) { vfs::reset(); return oc; }
            std::vector<uint8_t> b = vfs::get(path);
            if (write(fd, b.data(), b.size()) != (ssize_t) b.size()) { close(fd); unlink(tmpl); vfs::reset(); return oc; }
            close(fd);
            chmod(tmpl, 0644);
            struct stat st0; stat(tmpl, &st0);
            std::string rp = std::string("real:") + tmpl;
            Dump d = dump_file(rp.c_str(), rseed);
            std::vector<uint8_t> after;
            { FILE * f = fopen(tmpl, "rb"); if (f) { after.resize(b.size() + 16); size_t n = fread(after.data(), 1, after.size(), f); after.resize(n); fclose(f); } }
            struct stat st1; stat(tmpl, &st1);
            unlink(tmpl);
            if (d.open_rc) oc.fail("real_file", strf("closed file does not open through the real backend: %d", d.open_rc));
            else if (after != b) oc.fail("closed_file_modified", "the bytes of a closed real file changed while reading it");
            else if (st0.st_mtime != st1.st_mtime || st0.st_size != st1.st_size) oc.fail("closed_file_modified", "mtime/size of a closed real file changed while reading it");
            else {
                Dump dv = dump_file(path.c_str(), rseed);
                std::string r = dump_compare(dv, d, false, "the in-memory backend", "the real backend");
                if (!r.empty()) oc.fail("real_file", "real and in-memory backend disagree: " + r);
            }
            oc.nontrivial = true;
        }
        vfs::reset();
        return oc;
    }
    // crash images
    LoggedRun lr = logged_run(p, path.c_str());
    if (!lr.er.err.empty()) { oc.fail("write", lr.er.err); vfs::reset(); return oc; }
    std::vector<CrashPoint> pts = crash_points(lr.log, path, (size_t) c.get_int("stride", 23), (size_t) c.get_int("phase", 0), false);
    long images = 0, repaired = 0, refused = 0, already_closed = 0;
    for (auto & cp : pts) {
        if (!(cp.b == 0 || cp.b == 1 || cp.b == cp.op_len / 2 || cp.b + 1 == cp.op_len)) continue;
        std::vector<uint8_t> img = vfs::crash_image(lr.log, path, cp.k, cp.b);
        const char * ip = "c19_img.jls";
        vfs::put(ip, img);
        ++images;
        vfs::io_budget(3000000);
        vfs::log_clear(); vfs::log_enable(true);
        Dump d1 = dump_file(ip, rseed);
        vfs::log_enable(false);
        bool exceeded = vfs::budget_exceeded();
        vfs::io_budget(0);
        if (exceeded) { oc.fail("no_progress", strf("crash point k=%zu b=%zu: more than 3e6 backend calls", cp.k, cp.b)); break; }
        if (d1.open_rc) { ++refused; continue; }
        bool wrote = false;
        for (auto & o : vfs::log()) if (o.path == ip && (o.kind == vfs::OP_WRITE || o.kind == vfs::OP_TRUNCATE)) wrote = true;
        if (wrote) ++repaired; else ++already_closed;
        std::string where = strf("crash point k=%zu b=%zu (%s of %zu bytes)", cp.k, cp.b, cp.kind.c_str(), cp.op_len);
        // after the (possibly repairing) open the file is a well-formed closed file
        std::vector<uint8_t> b1 = vfs::get(ip);
        dec::File f = dec::decode(b1);
        if (!f.violations.empty() || !f.closed) {
            std::string v = f.violations.empty() ? std::string("no END chunk / header length mismatch") : f.violations[0];
            oc.fail("not_well_formed_after_open", strf("%s: after the first open: %s", where.c_str(), v.c_str()));
            if (const char * keep = getenv("VERIF_KEEP_IMG")) {   // debugging aid: image before and after the repairing open
                FILE * fp = fopen((std::string(keep) + ".before").c_str(), "wb"); if (fp) { fwrite(img.data(), 1, img.size(), fp); fclose(fp); }
                fp = fopen((std::string(keep) + ".after").c_str(), "wb"); if (fp) { fwrite(b1.data(), 1, b1.size(), fp); fclose(fp); }
            }
            if (cp.inplace && cp.b > 0 && v.find("CRC mismatch") != std::string::npos) oc.known = "KF-C03-1";
            break;
        }
        // second and third open: no modification, same answers
        for (int round = 2; round <= 3 && oc.ok; ++round) {
            vfs::log_clear(); vfs::log_enable(true);
            Dump dn = dump_file(ip, rseed);
            vfs::log_enable(false);
            for (auto & o : vfs::log()) if (o.path == ip && (o.kind == vfs::OP_WRITE || o.kind == vfs::OP_TRUNCATE)) {
                oc.fail("not_converged", strf("%s: open #%d modified the file again (%s at %lld, %zu bytes)", where.c_str(), round, o.kind == vfs::OP_WRITE ? "write" : "truncate", (long long) o.off, o.data.size()));
                break;
            }
            if (!oc.ok) break;
            if (vfs::get(ip) != b1) { oc.fail("not_converged", strf("%s: bytes changed during open #%d", where.c_str(), round)); break; }
            if (dn.open_rc) { oc.fail("not_converged", strf("%s: open #%d returns %d although open #1 succeeded", where.c_str(), round, dn.open_rc)); break; }
            std::string r = dump_compare(d1, dn, false, "open #1", strf("open #%d", round).c_str());
            if (!r.empty()) { oc.fail("answers_differ", strf("%s: %s", where.c_str(), r.c_str())); break; }
        }
        if (!oc.ok) break;
    }
    oc.counters.push_back({"images", images});
    oc.counters.push_back({"images_repaired_by_first_open", repaired});
    oc.counters.push_back({"images_refused", refused});
    oc.counters.push_back({"images_needing_no_repair", already_closed});
    oc.nontrivial = repaired > 0;
    vfs::reset();
    return oc;
}
