// C04 — corrupted bytes are detected, never returned as valid content.
#include "../gen_common.h"
#include "../decoder.h"
#include "../dump.h"

const char * prop_id() { return "C04"; }
const char * prop_rule() {
    return "case = small closed multi-track file (general program, 1-3 signals, several levels) + a list of fault sets built from the "
           "independent decoder's region map (file header, every chunk header, every payload+pad+CRC): 1/2/3 flipped bits in one region, one "
           "burst <= 32 bits, the same in 2-4 regions at once (always incl. combinations with the END chunk and the file header), zeroed "
           "ranges, ranges overwritten with random bytes; each altered copy is opened and dumped through the reader; oracle = every result "
           "is an error code, or exactly the baseline's, or (only if this open repaired the file) a prefix of the baseline's; exhaustive part: "
           "every single-bit flip of every bit of small files, and every 1-, 2- and 3-bit pattern of a 32-byte chunk header / the file header "
           "against the header CRC; non-trivial = fault set touching >= 1 CRC-protected byte; distinct = case hash; fault sets counted separately";
}

namespace {

struct Region { size_t off, len; int kind; };   // kind 0 file header, 1 chunk header, 2 payload+pad+crc, 3 END chunk header

std::vector<Region> regions(const dec::File & f) {
    std::vector<Region> r;
    r.push_back({0, 32, 0});
    for (auto & c : f.chunks) {
        r.push_back({(size_t) c.off, 32, c.tag == 0xFF ? 3 : 1});
        if (c.plen) r.push_back({c.pay, c.size - 32, 2});
    }
    return r;
}

long g_calls_after_error = 0, g_persistent_passes = 0;
const char * g_base_path = nullptr;   // the undamaged file of the current case (still in the VFS), for call-by-call comparison
struct Fault { int kind; size_t off; uint32_t a, b; };   // kind 0: flip bit a at byte off; 1: zero range [off, off+a); 2: random overwrite range (seed b)

void apply_faults(std::vector<uint8_t> & b, const std::vector<Fault> & fs) {
    for (auto & f : fs) {
        if (f.kind == 0) { if (f.off < b.size()) b[f.off] ^= (uint8_t) (1u << (f.a & 7)); }
        else if (f.kind == 1) { for (size_t k = f.off; k < f.off + f.a && k < b.size(); ++k) b[k] = 0; }
        else { for (size_t k = f.off; k < f.off + f.a && k < b.size(); ++k) b[k] = (uint8_t) (mix64(f.b, k) >> 11); }
    }
}

mj::Value fault_json(const std::vector<Fault> & fs) {
    mj::Value a = mj::Value::array();
    for (auto & f : fs) { mj::Value v = mj::Value::array(); v.push(f.kind); v.push((long long) f.off); v.push((long long) f.a); v.push((long long) f.b); a.push(v); }
    return a;
}

// Second pass on the same (possibly just repaired) altered file with ONE reader instance that keeps going after errors:
// every FSR signal is read in small windows (smaller than a block, so consecutive calls hit the same chunk), a failing call
// is retried once and then the script continues with the next window; statistics requests are repeated afterwards.
// "Every reader call either returns an error or exactly what was written" quantifies over such sequences too: state left
// behind by a failed call (chunk buffers, the level-1 cache) must not make a later call deliver the altered bytes.
std::string judge_persistent(const Dump & d0, const char * ap, uint64_t seed, bool repaired, bool & detected, long & calls_after_error) {
    Reader rd;
    if (rd.open(ap)) return "";
    vfs::io_budget(6000000);
    std::string res;
    for (auto & kv : d0.sigs) {
        const SigDump & y = kv.second;
        int id = kv.first;
        if (y.def.signal_type != JLS_SIGNAL_TYPE_FSR || y.len_rc || y.read_rc || y.len <= 0) continue;
        const DType * dt = nullptr;
        for (int k = 0; k < N_DTYPES; ++k) if (DTYPES[k].code == (y.def.data_type & 0xffff)) dt = &DTYPES[k];
        if (!dt) continue;
        int64_t len = 0;
        bool len_failed_once = false;
        if (jls_rd_fsr_length(rd.rd, (uint16_t) id, &len)) {
            // a failed length call must not leave a half-updated length behind: ask again
            detected = true; len_failed_once = true; ++calls_after_error;
            if (jls_rd_fsr_length(rd.rd, (uint16_t) id, &len)) continue;
        }
        if (len > y.len) { res = strf("signal %d: length %lld from the altered file, %lld originally", id, (long long) len, (long long) y.len); break; }
        if (!repaired && len != y.len) { res = strf("signal %d: jls_rd_fsr_length%s returns %lld for the altered file, %lld originally (no repair took place)", id, len_failed_once ? " (asked again after it had failed)" : "", (long long) len, (long long) y.len); break; }
        BitVec base(dt->bits); base.bytes = y.samples; base.n = y.len;
        uint64_t rs = mix64(seed, (uint64_t) id);
        uint32_t spd = y.def.samples_per_data ? y.def.samples_per_data : 64;
        int64_t pos = 0; int calls = 0; bool had_error = false;
        while (pos < len && calls < 3000 && res.empty()) {
            rs = mix64(rs, (uint64_t) pos);
            int64_t n;
            switch ((rs >> 40) % 4) {
                case 0: n = 1 + (int64_t) (rs % 7); break;
                case 1: n = 1 + (int64_t) (rs % (spd / 2 + 1)); break;
                case 2: n = 1 + (int64_t) (rs % (spd / 4 + 1)); break;
                default: n = 1 + (int64_t) (rs % (spd + 3)); break;
            }
            if (n > len - pos) n = len - pos;
            for (int attempt = 0; attempt < 2; ++attempt) {
                std::vector<uint8_t> got;
                int32_t rc = read_window(rd.rd, id, *dt, pos, n, got);
                ++calls;
                if (had_error) ++calls_after_error;
                if (rc) { detected = true; had_error = true; continue; }     // retry once, then move on to the next window
                for (int64_t k = 0; k < n; ++k) {
                    uint64_t v = window_sample(*dt, got, k), w = base.get(pos + k);
                    if (v != w) { res = strf("signal %d %s: jls_rd_fsr(start=%lld, n=%lld)%s returned 0 but sample %lld = 0x%llx, written 0x%llx (one reader instance, small windows, continuing after errors)", id, dt->name,
                                             (long long) pos, (long long) n, attempt ? " retried after an error" : (had_error ? " after an earlier call had failed" : ""), (long long) (pos + k), (unsigned long long) v, (unsigned long long) w); break; }
                }
                break;
            }
            pos += n;
        }
        if (!res.empty()) break;
        // statistics again, on the reader that has seen errors
        if (summarisable(*dt) && !repaired && len == y.len) {
            for (size_t q = 0; q < y.stats.size() && res.empty(); ++q) {
                const StatRes & b = y.stats[q];
                if (b.rc) continue;
                std::vector<double> v((size_t) b.rq.count * 4, 0.0);
                int32_t rc = jls_rd_fsr_statistics(rd.rd, (uint16_t) id, b.rq.start, b.rq.incr, v.data(), b.rq.count);
                if (had_error) ++calls_after_error;
                if (rc) { detected = true; had_error = true; continue; }
                for (size_t j = 0; j < v.size(); ++j) if (!dbl_same(v[j], b.v[j])) { res = strf("signal %d: statistics(%lld,%lld,%lld) field %zu = %.12g from the altered file, %.12g originally (reader instance that had reported errors before)", id, (long long) b.rq.start, (long long) b.rq.incr, (long long) b.rq.count, j, v[j], b.v[j]); break; }
            }
        }
        if (!res.empty()) break;
        // sample id <-> UTC conversions (they load the signal's UTC entries on first use): call by call against a reader of
        // the undamaged file; every call is made twice, so that a table left half-loaded by a failed call would show
        if (g_base_path && y.utcs.size() >= 2 && !repaired) {
            Reader rb;
            if (0 == rb.open(g_base_path)) {
                for (int q = 0; q < 9 && res.empty(); ++q) {
                    // inside the signal, at the last / first / middle anchor and far behind the last anchor (extrapolation uses the
                    // last segment, so a table that lost its tail answers differently there)
                    int64_t off = (int64_t) y.def.sample_id_offset;
                    int64_t sid = (q == 0) ? 0 : (q == 1) ? y.len - 1 :
                                  (q == 2) ? y.utcs.back().id - off : (q == 3) ? y.utcs.back().id - off + 100000 :
                                  (q == 4) ? y.utcs.front().id - off : (q == 5) ? y.utcs[y.utcs.size() / 2].id - off :
                                  (int64_t) (mix64(seed, 900 + (uint64_t) q) % (uint64_t) (y.len > 0 ? y.len : 1));
                    int64_t tb = 0; int32_t rcb = jls_rd_sample_id_to_timestamp(rb.rd, (uint16_t) id, sid, &tb);
                    for (int attempt = 0; attempt < 2 && res.empty(); ++attempt) {
                        int64_t ta = 0; int32_t rca = jls_rd_sample_id_to_timestamp(rd.rd, (uint16_t) id, sid, &ta);
                        if (rca) { detected = true; ++calls_after_error; continue; }
                        if (!rcb && ta != tb) res = strf("signal %d: jls_rd_sample_id_to_timestamp(%lld)%s returns %lld for the altered file, %lld originally", id, (long long) sid, attempt ? " (asked again after it had failed)" : "", (long long) ta, (long long) tb);
                        break;
                    }
                    if (!rcb && res.empty()) {
                        int64_t sb = 0; int32_t rcb2 = jls_rd_timestamp_to_sample_id(rb.rd, (uint16_t) id, tb, &sb);
                        for (int attempt = 0; attempt < 2 && res.empty(); ++attempt) {
                            int64_t sa = 0; int32_t rca = jls_rd_timestamp_to_sample_id(rd.rd, (uint16_t) id, tb, &sa);
                            if (rca) { detected = true; ++calls_after_error; continue; }
                            if (!rcb2 && sa != sb) res = strf("signal %d: jls_rd_timestamp_to_sample_id(%lld)%s returns %lld for the altered file, %lld originally", id, (long long) tb, attempt ? " (asked again after it had failed)" : "", (long long) sa, (long long) sb);
                            break;
                        }
                    }
                }
                rb.close();
            }
        }
        if (!res.empty()) break;
    }
    bool exceeded = vfs::budget_exceeded();
    vfs::io_budget(0);
    rd.close();
    if (exceeded && res.empty()) res = "no progress: more than 6e6 backend calls in the windowed read of the altered file";
    return res;
}

// judge one altered file against the baseline dump; "" = fine
std::string judge(const Dump & d0, const std::vector<uint8_t> & altered, bool certain, bool & detected, bool & repaired) {
    const char * ap = "c04_alt.jls";
    vfs::put(ap, altered);
    vfs::log_clear(); vfs::log_enable(true);
    vfs::io_budget(3000000);
    Dump d1 = dump_file(ap, 0);
    bool exceeded = vfs::budget_exceeded();
    vfs::io_budget(0);
    vfs::log_enable(false);
    if (exceeded) return "no progress: more than 3e6 backend calls while reading the altered file";
    repaired = false;
    for (auto & o : vfs::log()) if (o.path == ap && (o.kind == vfs::OP_WRITE || o.kind == vfs::OP_TRUNCATE)) repaired = true;
    detected = d1.open_rc != 0;
    if (d1.open_rc) return "";
    std::string r = dump_compare(d1, d0, true, "the altered file", "the original");
    if (!r.empty()) return r;
    // without a repair nothing may silently get shorter: every successful result equals the baseline's
    for (auto & kv : d1.sigs) {
        auto it = d0.sigs.find(kv.first);
        if (it == d0.sigs.end()) continue;
        const SigDump & x = kv.second; const SigDump & y = it->second;
        if (x.len_rc || x.read_rc || x.anno_rc || x.utc_rc) detected = true;
        if (!repaired) {
            if (!x.len_rc && x.len != y.len) return strf("signal %d: length %lld from the altered file, %lld originally (no repair took place)", kv.first, (long long) x.len, (long long) y.len);
            if (!x.anno_rc && x.annos.size() != y.annos.size()) return strf("signal %d: %zu annotations returned without error, %zu originally", kv.first, x.annos.size(), y.annos.size());
            if (!x.utc_rc && x.utcs.size() != y.utcs.size()) return strf("signal %d: %zu UTC entries returned without error, %zu originally", kv.first, x.utcs.size(), y.utcs.size());
        }
        if (!x.len_rc && x.len == y.len && x.stats.size() == y.stats.size()) {
            for (size_t k = 0; k < x.stats.size(); ++k) {
                if (x.stats[k].rc) { detected = true; continue; }
                if (y.stats[k].rc) continue;
                if (repaired) continue;   // a repair rebuilds summaries: C03/C02 judge those
                for (size_t j = 0; j < x.stats[k].v.size(); ++j) if (!dbl_same(x.stats[k].v[j], y.stats[k].v[j]))
                    return strf("signal %d: statistics(%lld,%lld,%lld) field %zu = %.12g from the altered file, %.12g originally", kv.first, (long long) x.stats[k].rq.start, (long long) x.stats[k].rq.incr, (long long) x.stats[k].rq.count, j, x.stats[k].v[j], y.stats[k].v[j]);
            }
        }
    }
    if (!repaired && !d1.user_rc && d1.user.size() != d0.user.size()) return strf("%zu user-data items returned without error, %zu originally", d1.user.size(), d0.user.size());
    if (d1.user_rc) detected = true;
    if (!repaired && d1.sigs.size() != d0.sigs.size()) return strf("%zu signals enumerated, %zu originally (no repair, no error)", d1.sigs.size(), d0.sigs.size());
    if (!repaired && d1.sources.size() != d0.sources.size()) return strf("%zu sources enumerated, %zu originally (no repair, no error)", d1.sources.size(), d0.sources.size());
    (void) certain;
    // windowed / retrying pass: always when an error was reported (state after a failed call is the interesting part), else for a share
    uint64_t hs = 1469598103934665603ULL; for (size_t k = 0; k < altered.size(); k += 97) hs = (hs ^ altered[k]) * 1099511628211ULL;
    if (detected || (hs % 8) == 0) {
        long cae = 0;
        std::string r2 = judge_persistent(d0, ap, hs, repaired, detected, cae);
        g_calls_after_error += cae; ++g_persistent_passes;
        if (!r2.empty()) return r2;
    }
    return "";
}

Program small_program(Tape & t, int size) {
    GenOpts go;
    go.allow_big = false; go.allow_gaps = false; go.sample_budget = 2500; go.max_signals = 3; go.allow_vsr = true;
    Program p = gen_general(t, size / 2, go);
    p.close = true;
    return p;
}

}  // namespace

std::string prop_generate(Tape & t, int size) {
    Program p = small_program(t, size);
    mj::Value c = mj::Value::object();
    c.set("program", program_to_json(p));
    c.set("fseed", (long long) t.raw());
    c.set("nfaults", (long long) t.range(40, 160));
    return mj::dump(c);
}

CaseOutcome prop_execute(const std::string & case_json) {
    CaseOutcome oc;
    mj::Value c = mj::parse(case_json);
    Program p = program_from_json(c.at("program"));
    vfs::reset();
    Model m;
    const char * path = "c04.jls";
    g_base_path = path;
    ExecResult er = run_program(p, path, m, true);
    if (!er.err.empty() || er.close_rc) { oc.fail("write", er.err); vfs::reset(); return oc; }
    std::vector<uint8_t> base = vfs::get(path);
    dec::File f = dec::decode(base);
    if (!f.violations.empty()) { oc.fail("baseline", f.violations[0]); vfs::reset(); return oc; }
    Dump d0 = dump_file(path, 0);
    if (d0.open_rc) { oc.fail("baseline", "baseline does not open"); vfs::reset(); return oc; }
    std::vector<Region> regs = regions(f);
    // explicit fault sets (replay) or generated from fseed
    std::vector<std::vector<Fault>> sets;
    if (c.has("faults")) {
        for (auto & fs : c.at("faults").a) { std::vector<Fault> v; for (auto & e : fs.a) v.push_back(Fault{(int) e.a[0].as_int(), (size_t) e.a[1].as_int(), (uint32_t) e.a[2].as_int(), (uint32_t) e.a[3].as_int()}); sets.push_back(v); }
    } else {
        uint64_t rs = (uint64_t) c.get_int("fseed", 1);
        int n = (int) c.get_int("nfaults", 60);
        size_t end_idx = 0, k_idx = 0;
        for (auto & r : regs) { if (r.kind == 3) end_idx = k_idx; ++k_idx; }
        for (int q = 0; q < n; ++q) {
            rs = mix64(rs, (uint64_t) q);
            std::vector<Fault> fs;
            int nreg = 1 + (int) ((rs >> 4) % 8 == 0 ? 1 + (rs >> 8) % 3 : 0);
            int op = (int) ((rs >> 12) % 10);   // 0-5 bit flips (1..3), 6-7 burst, 8 zero range, 9 random range
            for (int g = 0; g < nreg; ++g) {
                uint64_t r2 = mix64(rs, 1000 + (uint64_t) g);
                size_t ri = (size_t) (r2 % regs.size());
                if (g == 1 && (r2 >> 40) % 2) ri = end_idx;        // combinations with the END chunk
                if (g == 2 && (r2 >> 41) % 2) ri = 0;              // ... and with the file header
                const Region & rg = regs[ri];
                if (op <= 5) {
                    int nb = 1 + op % 3;
                    for (int b = 0; b < nb; ++b) { uint64_t r3 = mix64(r2, (uint64_t) b); fs.push_back(Fault{0, rg.off + (size_t) (r3 % rg.len), (uint32_t) ((r3 >> 32) & 7), 0}); }
                } else if (op <= 7) {
                    uint64_t r3 = mix64(r2, 77);
                    size_t bit0 = (size_t) (r3 % (rg.len * 8));
                    int blen = 2 + (int) ((r3 >> 32) % 31);   // burst of <= 32 bits: first and last bit flipped, inner bits random
                    for (int b = 0; b < blen; ++b) { bool fl = (b == 0 || b == blen - 1) ? true : ((mix64(r3, (uint64_t) b) >> 9) & 1); size_t bit = bit0 + (size_t) b; if (fl && bit < rg.len * 8) fs.push_back(Fault{0, rg.off + bit / 8, (uint32_t) (bit % 8), 0}); }
                } else {
                    uint64_t r3 = mix64(r2, 99);
                    size_t o = rg.off + (size_t) (r3 % rg.len);
                    uint32_t ln = 1 + (uint32_t) ((r3 >> 32) % 64);
                    fs.push_back(Fault{op == 8 ? 1 : 2, o, ln, (uint32_t) (r3 >> 8)});
                }
            }
            sets.push_back(fs);
        }
    }
    long n_sets = 0, n_detected = 0, n_repaired = 0, n_nochange = 0;
    for (auto & fs : sets) {
        std::vector<uint8_t> alt = base;
        apply_faults(alt, fs);
        ++n_sets;
        if (alt == base) { ++n_nochange; continue; }
        bool certain = true;
        for (auto & ft : fs) if (ft.kind != 0) certain = false;
        if (!certain) {
            // zero/overwrite faults: if the altered file still passes every CRC (2^-32 event, or a range of pad bytes) the fault is outside the certain class
            dec::File fa; dec::parse(fa, alt);
            bool crc_clean = true; for (auto & v : fa.violations) if (v.find("CRC") != std::string::npos || v.find("pad") != std::string::npos) crc_clean = false;
            if (crc_clean && !fa.violations.empty()) { /* structural damage without CRC evidence cannot happen: every byte but pad is covered */ }
        }
        bool detected = false, repaired = false;
        std::string r = judge(d0, alt, certain, detected, repaired);
        if (detected) ++n_detected;
        if (repaired) ++n_repaired;
        if (!r.empty()) {
            mj::Value one = mj::Value::array(); one.push(fault_json(fs));
            oc.fail("altered_content_returned", strf("fault set %s on a %zu-byte file: %s", mj::dump(fault_json(fs)).c_str(), base.size(), r.c_str()));
            break;
        }
    }
    oc.counters.push_back({"fault_sets", n_sets});
    oc.counters.push_back({"fault_sets_with_error_reported", n_detected});
    oc.counters.push_back({"fault_sets_triggering_repair", n_repaired});
    oc.counters.push_back({"fault_sets_without_effect", n_nochange});
    oc.counters.push_back({"windowed_retry_passes", g_persistent_passes});
    oc.counters.push_back({"reader_calls_after_a_failed_call", g_calls_after_error});
    g_persistent_passes = 0; g_calls_after_error = 0;
    oc.nontrivial = n_sets > n_nochange;
    oc.tags.push_back(base.size() < 4096 ? "file<4K" : base.size() < 16384 ? "file<16K" : "file>=16K");
    vfs::reset();
    return oc;
}

// ---------------------------------------------------------------------------------------------
extern "C" {
#include "jls/crc32c.h"
}

std::string prop_enumerate(const std::string & tier, const std::string & outdir) {
    mj::Value res = mj::Value::object();
    mj::Value viol = mj::Value::array();
    long long evals = 0, nt = 0;
    // (1) every 1-, 2-, 3-bit pattern of a 32-byte header against the library's header CRC (incl. flips in the CRC field)
    {
        uint8_t * h = (uint8_t *) aligned_alloc(8, 32);
        for (int k = 0; k < 28; ++k) h[k] = (uint8_t) (mix64(0xC04, (uint64_t) k) >> 7);
        uint32_t crc = jls_crc32c_hdr((const struct jls_chunk_header_s *) h);
        memcpy(h + 28, &crc, 4);
        auto ok_after = [&]() { uint32_t c2 = jls_crc32c_hdr((const struct jls_chunk_header_s *) h); uint32_t st; memcpy(&st, h + 28, 4); return c2 == st; };
        long long undetected = 0;
        for (int a = 0; a < 256; ++a) {
            h[a / 8] ^= (uint8_t) (1u << (a % 8));
            ++evals; ++nt; if (ok_after()) ++undetected;
            for (int b = a + 1; b < 256; ++b) {
                h[b / 8] ^= (uint8_t) (1u << (b % 8));
                ++evals; ++nt; if (ok_after()) ++undetected;
                for (int cc = b + 1; cc < 256; ++cc) {
                    h[cc / 8] ^= (uint8_t) (1u << (cc % 8));
                    ++evals; if (ok_after()) ++undetected;
                    h[cc / 8] ^= (uint8_t) (1u << (cc % 8));
                }
                h[b / 8] ^= (uint8_t) (1u << (b % 8));
            }
            h[a / 8] ^= (uint8_t) (1u << (a % 8));
        }
        nt = evals;
        if (undetected) { mj::Value v = mj::Value::object(); v.set("clause", "header_crc"); v.set("detail", strf("%lld of the 1/2/3-bit patterns of a 32-byte header pass the header CRC", undetected)); v.set("case", mj::Value()); viol.push(v); }
        free(h);
    }
    // (2) every single-bit flip of every bit of small files
    int nfiles = tier == "thorough" ? 4 : 1;
    long long flips = 0;
    for (int fi = -1; fi < nfiles && viol.a.empty(); ++fi) {
        std::vector<uint32_t> tape;
        for (int k = 0; k < 400; ++k) tape.push_back((uint32_t) (mix64(0xF11E + (uint64_t) fi, (uint64_t) k) >> 13));
        Tape t(tape.data(), tape.size());
        GenOpts go; go.allow_big = false; go.sample_budget = 500; go.max_signals = 2;
        Program p;
        if (fi >= 0) p = gen_general(t, 10, go);
        else {
            // a file whose UTC and annotation tracks have an index level: 12 irregular UTC anchors (decimate factor 10),
            // 11 annotations, a little data - so that damage in the middle of a track leaves part of it readable
            Tape e(nullptr, 0);
            p.ops.push_back(gen_source(e, 1));
            Op def = gen_signal(e, 5, 1, *dtype_by_name("f32"), DEF_MINIMAL);
            def.annodf = 10; def.utcdf = 10; def.rate = 1000;
            p.ops.push_back(def);
            bool lean = tier != "thorough";     // quick tier: fewer samples, no annotations, every second bit position
            { Op w; w.op = "fsr"; w.sig = 5; w.sample_id = 100; w.n = lean ? 12 : 45; w.pat.kind = "random"; w.pat.seed = 8; w.poff = 0; p.ops.push_back(w); }
            int64_t sid = 100, utc = 1000000;
            for (int k = 0; k < 12; ++k) {
                sid += 3 + (k * 7) % 5; utc += (int64_t) (1 << 20) * (3 + (k * 5) % 11);
                Op u; u.op = "utc"; u.sig = 5; u.sample_id = sid; u.utc = utc; p.ops.push_back(u);
                if (k < 11 && !lean) { Op a; a.op = "anno"; a.sig = 5; a.ts = 100 + 4 * k; a.y = (float) k; a.atype = k % 3; a.group = 0; a.stor = 2; a.data.lit = {'a', (uint8_t) ('a' + k)}; p.ops.push_back(a); }
            }
        }
        p.close = true;
        vfs::reset();
        Model m;
        g_base_path = "c04e.jls";
        ExecResult er = run_program(p, "c04e.jls", m, true);
        if (!er.err.empty()) continue;
        std::vector<uint8_t> base = vfs::get("c04e.jls");
        if (base.size() > 6000) base.resize(base.size());   // keep as is; small by construction
        Dump d0 = dump_file("c04e.jls", 0);
        if (d0.open_rc) continue;
        size_t bit_step = (fi < 0 && tier != "thorough") ? 2 : 1;
        for (size_t bit = 0; bit < base.size() * 8; bit += bit_step) {
            std::vector<Fault> fs{Fault{0, bit / 8, (uint32_t) (bit % 8), 0}};
            std::vector<uint8_t> alt = base;
            apply_faults(alt, fs);
            {   // crash aid: what is being examined
                static long ctr = 0;
                if ((++ctr & 15) == 0 || true) { mj::Value cs = mj::Value::object(); cs.set("program", program_to_json(p)); mj::Value fl = mj::Value::array(); fl.push(fault_json(fs)); cs.set("faults", fl);
                    mj::Value doc = mj::Value::object(); doc.set("property", "C04"); doc.set("clause", "crash"); doc.set("case", cs); mj::write_file(outdir + "/current_case.json", mj::dump(doc)); }
            }
            bool det = false, rep = false;
            std::string r = judge(d0, alt, true, det, rep);
            ++evals; ++nt; ++flips;
            if (!r.empty()) {
                mj::Value cs = mj::Value::object(); cs.set("program", program_to_json(p)); mj::Value fl = mj::Value::array(); fl.push(fault_json(fs)); cs.set("faults", fl);
                mj::Value v = mj::Value::object(); v.set("clause", "altered_content_returned"); v.set("detail", strf("single-bit flip at byte %zu bit %zu of a %zu-byte file: %s", bit / 8, bit % 8, base.size(), r.c_str())); v.set("case", cs);
                viol.push(v);
                break;
            }
        }
    }
    ::remove((outdir + "/current_case.json").c_str());
    res.set("evaluations", evals);
    res.set("distinct_nontrivial", nt);
    res.set("exhaustive", true);
    res.set("bound", strf("every 1-, 2- and 3-bit pattern of a 32-byte chunk header incl. its CRC field (2,796,416 patterns) against jls_crc32c_hdr; every single-bit flip (%lld) of every byte of %d generated small file(s), plus a hand-built file with an indexed UTC track (quick tier: lean file, every second bit position; thorough tier: with an indexed annotation track, every bit), each judged through the full reader dump and a windowed, retrying second pass", flips, nfiles));
    res.set("violations", viol);
    mj::Value smp = mj::Value::array(); { mj::Value s = mj::Value::object(); s.set("fault", "flip bit 3 of byte 1234"); smp.push(s); }
    res.set("samples", smp);
    vfs::reset();
    return mj::dump(res);
}
