// C17 — copy preserves everything the reader can see.
#include "../gen_common.h"
#include "../decoder.h"
#include "../dump.h"

const char * prop_id() { return "C17"; }
const char * prop_rule() {
    return "case = general writer program (several signals/types, offsets, omit toggles, annotations/UTC/user data incl. > 1 MiB) whose file "
           "is closed, left unclosed at an API boundary, or cut at a generated point of the backend write log; jls_copy(src, dst); oracle = "
           "copy returns 0, the destination passes the independent decoder as a closed file, and the reader dump of the copy equals the dump "
           "of a closed original (definitions, lengths, all samples, a statistics battery, annotations, UTC, user data) resp. contains the dump "
           "of an unclosed original taken after copying; non-trivial = source with >= 2 signals and >= 3 chunk kinds, or unclosed; distinct = case hash";
}

std::string prop_generate(Tape & t, int size) {
    gen_allow_q() = true;   // integer signals may carry a fixed-point exponent in their data type
    GenOpts go;
    go.allow_big = size >= 50;
    go.allow_gaps = true;
    go.sample_budget = 24000;
    Program p = t.chance(1, 8) ? gen_bigblock(t, size) : gen_general(t, size, go);
    mj::Value c = mj::Value::object();
    size_t mode = t.weighted({6, 2, 3});
    static const char * M[] = {"closed", "unclosed", "cut"};
    c.set("mode", M[mode]);
    if (mode == 1) p.close = false;
    c.set("program", program_to_json(p));
    c.set("cut_frac", (long long) t.range(0, 1000));
    c.set("cut_bytes", (long long) t.range(0, 40));
    return mj::dump(c);
}

CaseOutcome prop_execute(const std::string & case_json) {
    CaseOutcome oc;
    mj::Value c = mj::parse(case_json);
    Program p = program_from_json(c.at("program"));
    std::string mode = c.get_str("mode", "closed");
    vfs::reset();
    Model m;
    const char * path = "c17.jls";
    if (mode == "cut") vfs::log_enable(true);
    ExecResult er = run_program(p, path, m, true);
    vfs::log_enable(false);
    if (!er.err.empty()) { oc.fail("write", er.err); vfs::reset(); return oc; }
    oc.tags.push_back("mode:" + mode);
    const char * src = path;
    if (mode == "cut") {
        std::vector<vfs::Op> log = vfs::log();
        size_t nm = vfs::count_mutations(log, path);
        size_t k = (size_t) ((uint64_t) nm * (uint64_t) c.get_int("cut_frac", 500) / 1000);
        size_t cb = (size_t) c.get_int("cut_bytes", 0);
        {   // C17 is about originals that were left unclosed; a tear inside an in-place rewrite is C03's territory (KF-C03-1)
            size_t n = 0;
            for (auto & o : log) {
                if (o.path != path || (o.kind != vfs::OP_WRITE && o.kind != vfs::OP_TRUNCATE)) continue;
                if (n == k) { if (o.kind == vfs::OP_WRITE && o.off + (int64_t) o.data.size() <= o.size_before) cb = 0; break; }
                ++n;
            }
        }
        vfs::put("c17_cut.jls", vfs::crash_image(log, path, k, cb));
        src = "c17_cut.jls";
    }
    // does the original contain omitted blocks (level-1 index entries == 0)?
    std::vector<uint8_t> ob = vfs::get(src);
    dec::File of = dec::decode(ob);
    std::set<int> omitted_sigs;
    for (auto & sg : of.fsr_index) { auto l1 = sg.second.find(1); if (l1 != sg.second.end()) for (auto & ch : l1->second) for (auto e : ch) if (!e) omitted_sigs.insert(sg.first); }
    bool closed_src = (mode == "closed");
    Dump d_orig;
    if (closed_src) d_orig = dump_file(src);
    if (closed_src && d_orig.open_rc) { oc.fail("open", strf("closed original does not open: %d", d_orig.open_rc)); vfs::reset(); return oc; }

    int32_t refused_rc = 0; (void) refused_rc;
    int32_t rc = jls_copy(src, "c17_dst.jls", nullptr, nullptr, nullptr, nullptr);
    if (rc) {
        if (closed_src) { oc.fail("copy_rc", strf("jls_copy of a closed file returned %d %s", rc, ec_name(rc))); vfs::reset(); return oc; }
        if (mode == "unclosed") {
            // stopped at an API boundary, nothing torn: this is the "left unclosed" original the property names
            oc.fail("copy_rc", strf("jls_copy of an original that was merely left unclosed returned %d %s", rc, ec_name(rc))); vfs::reset(); return oc;
        }
        // torn tail ("cut"): jls_copy salvages what precedes the torn chunk, closes the destination and reports IO / NOT_FOUND.
        // The statement is about what reads back from the copy, not about the return code for a torn source, so the code is
        // accepted - but the destination is judged like any other copy (it used to be skipped: 63 % of this mode).
        refused_rc = rc;
        oc.tags.push_back(strf("copy_of_torn_source_rc:%s", ec_name(rc)));
        std::vector<uint8_t> probe_dst = vfs::get("c17_dst.jls");
        if (probe_dst.size() < 64) {
            Dump probe = dump_file(src);
            if (!probe.open_rc) oc.fail("copy_refused_readable_source", strf("jls_copy returned %d %s and produced no file, but jls_rd_open opens (repairs) the same source", rc, ec_name(rc)));
            else oc.tags.push_back("source_unreadable_for_reader_too");
            vfs::reset(); return oc;
        }
        // fall through: judge the destination
    }
    std::vector<uint8_t> cb = vfs::get("c17_dst.jls");
    dec::File cf = dec::decode(cb);
    if (!cf.violations.empty() || !cf.closed) { oc.fail("copy_conformance", strf("the copy is not a well-formed closed file: %s", cf.violations.empty() ? "no END / header length" : cf.violations[0].c_str())); vfs::reset(); return oc; }
    Dump d_copy = dump_file("c17_dst.jls", 1);
    if (d_copy.open_rc) { oc.fail("copy_open", strf("the copy does not open: %d", d_copy.open_rc)); vfs::reset(); return oc; }
    if (!closed_src) {
        d_orig = dump_file(src);   // opening repairs the original
        if (d_orig.open_rc) { oc.tags.push_back("original_unreadable"); vfs::reset(); return oc; }
        ob = vfs::get(src);
        of = dec::decode(ob);
        for (auto & sg : of.fsr_index) { auto l1 = sg.second.find(1); if (l1 != sg.second.end()) for (auto & ch : l1->second) for (auto e : ch) if (!e) omitted_sigs.insert(sg.first); }
    }
    if (!of.violations.empty()) {
        // the original cannot be walked completely (torn tail / KF-C03-1): fall back to what the program allows -
        // omission on request, or a <= 8-bit type whose constant blocks are omitted automatically
        for (auto & o : p.ops) if (o.op == "omit" && o.enable) omitted_sigs.insert(o.sig);
        for (auto & kv : m.sigs) if (kv.second.dt && kv.second.dt->bits <= 8) omitted_sigs.insert(kv.first);
    }
    // omitted blocks also show as DATA chunks that are not contiguous (gaps are written as fill samples, never skipped)
    for (auto & sg : of.fsr) for (size_t k = 1; k < sg.second.size(); ++k) if (sg.second[k].ts != sg.second[k - 1].ts + (int64_t) sg.second[k - 1].count) omitted_sigs.insert(sg.first);
    // compare, signal by signal so that a known finding can be attributed
    std::string r = dump_compare(d_orig, d_copy, !closed_src, "the original", "the copy");
    if (!r.empty()) {
        // KF-C17-1: blocks omitted in the original (no DATA chunk) are not reconstructed by jls_copy
        bool known = false;
        if (!omitted_sigs.empty()) {
            Dump o2 = d_orig, c2 = d_copy;
            for (int s : omitted_sigs) { o2.sigs.erase(s); c2.sigs.erase(s); }
            std::string r2 = dump_compare(o2, c2, !closed_src, "the original", "the copy");
            if (r2.empty()) known = true;
        }
        oc.fail("copy_differs", r);
        if (known) oc.known = "KF-C17-1";
        vfs::reset();
        return oc;
    }
    int kinds = (int) !of.fsr.empty() + (int) !of.annos.empty() + (int) !of.utcs.empty() + (int) !of.user.empty();
    oc.nontrivial = (d_orig.sigs.size() >= 3 && kinds >= 3) || !closed_src;   // sigs includes the reserved signal 0
    if (!omitted_sigs.empty()) oc.tags.push_back("original_has_omitted_blocks");
    oc.tags.push_back(strf("chunk_kinds:%d", kinds));
    vfs::reset();
    return oc;
}
