// Shared building blocks for the program generators (constructive: definitions precede use).
#pragma once
#include "program.h"
#include "prop_api.h"

inline OptStr gen_name(Tape & t, const char * dflt) {
    switch (t.weighted({6, 1, 1, 2})) {
        case 0: return OptStr::of(dflt);
        case 1: return OptStr::of("");
        case 2: { OptStr s; s.null = true; return s; }
        default: { OptStr s; s.d.gen = true; s.d.seed = t.raw(); s.d.n = (uint32_t) t.range(1, 40); s.d.text = true; return s; }
    }
}

inline Op gen_source(Tape & t, int id) {
    Op o; o.op = "source"; o.id = id;
    o.name = gen_name(t, "src"); o.vendor = gen_name(t, "vend"); o.model = gen_name(t, "mod"); o.version = gen_name(t, "1.0"); o.serial = gen_name(t, "sn");
    return o;
}

// shape of the definition parameters
enum DefShape { DEF_MINIMAL = 0, DEF_SMALL = 1, DEF_DEFAULTS = 2, DEF_ODD = 3 };

inline Op gen_signal(Tape & t, int id, int src, const DType & dt, int shape) {
    Op o; o.op = "signal"; o.id = id; o.src = src; o.stype = 0; o.dtype = dt.name;
    o.rate = (uint32_t) t.pick(std::vector<uint32_t>{1000, 1, 48000, 1000000, 2000000000u});
    switch (shape) {
        case DEF_MINIMAL: o.spd = 10; o.sdf = 10; o.eps = 10; o.sumdf = 10; break;
        case DEF_SMALL:
            o.sdf = (uint32_t) t.range(1, 70);
            o.spd = o.sdf * (uint32_t) t.range(1, 6) + (uint32_t) t.range(0, 3);
            o.eps = (uint32_t) t.range(1, 45);
            o.sumdf = (uint32_t) t.range(1, 24);
            break;
        case DEF_DEFAULTS: break;   // all zero
        default:
            o.sdf = t.coin() ? 0 : (uint32_t) t.range(1, 300);
            o.spd = t.coin() ? 0 : (uint32_t) t.range(1, 5000);
            o.eps = t.coin() ? 0 : (uint32_t) t.range(1, 200);
            o.sumdf = t.coin() ? 0 : (uint32_t) t.range(1, 50);
    }
    o.annodf = (uint32_t) t.pick(std::vector<uint32_t>{0, 2, 3, 10});
    o.utcdf = (uint32_t) t.pick(std::vector<uint32_t>{0, 2, 3, 10});
    o.name = gen_name(t, "sig"); o.units = gen_name(t, "V");
    return o;
}

// What the library will store for a definition (mirror of the documented normalisation, used
// only to aim generators at block/summary edges - never as an oracle)
struct StoredDef { uint32_t spd, sdf, eps, sumdf; };
inline StoredDef predict_stored(const Op & o, const DType & dt) {
    uint64_t spd = o.spd, sdf = o.sdf, eps = o.eps, sumdf = o.sumdf;
    DefDefaults dd;
    if (width_defaults(dt.bits, dd)) { if (!spd) spd = dd.spd; if (!sdf) sdf = dd.sdf; if (!eps) eps = dd.eps; if (!sumdf) sumdf = dd.sumdf; }
    uint64_t mult = 256 / (uint64_t) dt.bits;
    if (sdf < 10) sdf = 10;
    sdf = ((sdf + mult - 1) / mult) * mult;
    if (spd < 10) spd = 10;
    if (eps < 10) eps = 10;
    if (sumdf < 10) sumdf = 10;
    eps = ((eps + sumdf - 1) / sumdf) * sumdf;
    spd = ((spd + sdf - 1) / sdf) * sdf;
    uint64_t epd = spd / sdf;
    while (epd > 1 && eps % epd) --epd;
    spd = sdf * epd;
    return StoredDef{(uint32_t) spd, (uint32_t) sdf, (uint32_t) eps, (uint32_t) sumdf};
}

inline int64_t gen_first_id(Tape & t) {
    switch (t.weighted({5, 3, 2, 2, 1, 2})) {
        case 0: return 0;
        case 1: return t.range(1, 1000);
        case 2: return (int64_t) 2147483648LL + t.range(-2, 2);
        case 3: return -t.range(1, 100000);
        case 4: return (1LL << 40) + t.range(0, 1000);
        default: return t.coin() ? (1LL << 60) - t.range(0, 1000) : -(1LL << 60) + t.range(0, 1000);
    }
}

inline Pattern gen_pattern(Tape & t, const DType & dt, const std::vector<std::string> & kinds, uint32_t block_hint) {
    Pattern p;
    p.kind = kinds[t.below((uint32_t) kinds.size())];
    p.seed = (uint64_t) t.raw() << 1;
    if (p.kind == "const") p.p1 = t.range(0, 255);
    else if (p.kind == "blocks") p.p1 = block_hint ? (int64_t) block_hint * t.range(1, 2) : 64;
    (void) dt;
    return p;
}

// cut [0,total) into write sizes aimed at block edges
inline std::vector<uint32_t> gen_partition(Tape & t, int64_t total, uint32_t spd, int max_parts) {
    std::vector<uint32_t> parts;
    int64_t left = total;
    while (left > 0) {
        if ((int) parts.size() >= max_parts - 1) { parts.push_back((uint32_t) left); break; }
        int64_t n;
        switch (t.weighted({3, 2, 3, 3, 2})) {
            case 0: n = left; break;
            case 1: n = t.range(1, 9); break;
            case 2: n = (int64_t) spd + t.range(-1, 1); break;
            case 3: n = t.range(1, (int64_t) spd * 3 + 1); break;
            default: n = t.range(1, left); break;
        }
        if (n < 1) n = 1;
        if (n > left) n = left;
        parts.push_back((uint32_t) n);
        left -= n;
    }
    return parts;
}
