// Shared building blocks for the program generators (constructive: definitions precede use).
#pragma once
#include "program.h"
#include "prop_api.h"

inline OptStr gen_name(Tape & t, const char * dflt) {
    switch (t.weighted({6, 1, 1, 2})) {
        case 0: return OptStr::of(dflt);
        case 1: return OptStr::of("");
        case 2: { OptStr s; s.null = true; return s; }
        default: { OptStr s; s.d.gen = true; s.d.seed = t.raw(); s.d.n = (uint32_t) t.range(1, 40); s.d.text = true; return s; }
    }
}

inline Op gen_source(Tape & t, int id) {
    Op o; o.op = "source"; o.id = id;
    o.name = gen_name(t, "src"); o.vendor = gen_name(t, "vend"); o.model = gen_name(t, "mod"); o.version = gen_name(t, "1.0"); o.serial = gen_name(t, "sn");
    return o;
}

// shape of the definition parameters
enum DefShape { DEF_MINIMAL = 0, DEF_SMALL = 1, DEF_DEFAULTS = 2, DEF_ODD = 3 };

// Properties that judge samples (not absolute statistics) switch this on: one integer signal in six then carries a fixed-point
// exponent in its data type (JLS_DATATYPE_DEF(base, size, q), q = 1..40).  The stored bits are the same; every place of the
// library that dispatches on the data type must ignore q (found F-C15-5: omitted constant blocks of u8/u4/u1 with q != 0).
inline bool & gen_allow_q() { static bool v = false; return v; }
inline Op gen_signal(Tape & t, int id, int src, const DType & dt, int shape) {
    Op o; o.op = "signal"; o.id = id; o.src = src; o.stype = 0; o.dtype = dt.name;
    if (gen_allow_q() && dt.kind != 'f' && t.chance(1, 6)) o.q = (int) t.range(1, 40);
    o.rate = (uint32_t) t.pick(std::vector<uint32_t>{1000, 1, 48000, 1000000, 2000000000u});
    switch (shape) {
        case DEF_MINIMAL: o.spd = 10; o.sdf = 10; o.eps = 10; o.sumdf = 10; break;
        case DEF_SMALL:
            o.sdf = (uint32_t) t.range(1, 70);
            o.spd = o.sdf * (uint32_t) t.range(1, 6) + (uint32_t) t.range(0, 3);
            o.eps = (uint32_t) t.range(1, 45);
            o.sumdf = (uint32_t) t.range(1, 24);
            break;
        case DEF_DEFAULTS: break;   // all zero
        default:
            o.sdf = t.coin() ? 0 : (uint32_t) t.range(1, 300);
            o.spd = t.coin() ? 0 : (uint32_t) t.range(1, 5000);
            o.eps = t.coin() ? 0 : (uint32_t) t.range(1, 200);
            o.sumdf = t.coin() ? 0 : (uint32_t) t.range(1, 50);
    }
    o.annodf = (uint32_t) t.pick(std::vector<uint32_t>{0, 2, 12, 10});
    o.utcdf = (uint32_t) t.pick(std::vector<uint32_t>{0, 2, 12, 10});
    o.name = gen_name(t, "sig"); o.units = gen_name(t, "V");
    return o;
}

// What the library will store for a definition (mirror of the documented normalisation, used
// only to aim generators at block/summary edges - never as an oracle)
struct StoredDef { uint32_t spd, sdf, eps, sumdf; };
inline StoredDef predict_stored(const Op & o, const DType & dt) {
    uint64_t spd = o.spd, sdf = o.sdf, eps = o.eps, sumdf = o.sumdf;
    DefDefaults dd;
    if (width_defaults(dt.bits, dd)) { if (!spd) spd = dd.spd; if (!sdf) sdf = dd.sdf; if (!eps) eps = dd.eps; if (!sumdf) sumdf = dd.sumdf; }
    uint64_t mult = 256 / (uint64_t) dt.bits;
    if (sdf < 10) sdf = 10;
    sdf = ((sdf + mult - 1) / mult) * mult;
    if (spd < 10) spd = 10;
    if (eps < 10) eps = 10;
    if (sumdf < 10) sumdf = 10;
    eps = ((eps + sumdf - 1) / sumdf) * sumdf;
    spd = ((spd + sdf - 1) / sdf) * sdf;
    uint64_t epd = spd / sdf;
    while (epd > 1 && eps % epd) --epd;
    spd = sdf * epd;
    return StoredDef{(uint32_t) spd, (uint32_t) sdf, (uint32_t) eps, (uint32_t) sumdf};
}

inline int64_t gen_first_id(Tape & t) {
    switch (t.weighted({5, 3, 2, 2, 1, 2})) {
        case 0: return 0;
        case 1: return t.range(1, 1000);
        case 2: return (int64_t) 2147483648LL + t.range(-2, 2);
        case 3: return -t.range(1, 100000);
        case 4: return (1LL << 40) + t.range(0, 1000);
        default: return t.coin() ? (1LL << 60) - t.range(0, 1000) : -(1LL << 60) + t.range(0, 1000);
    }
}

inline Pattern gen_pattern(Tape & t, const DType & dt, const std::vector<std::string> & kinds, uint32_t block_hint) {
    Pattern p;
    p.kind = kinds[t.below((uint32_t) kinds.size())];
    p.seed = (uint64_t) t.raw() << 1;
    if (p.kind == "const") p.p1 = t.range(0, 255);
    else if (p.kind == "blocks") p.p1 = block_hint ? (int64_t) block_hint * t.range(1, 2) : 64;
    else if (p.kind == "spike" || p.kind == "spike2") p.p1 = block_hint ? (int64_t) block_hint : 64;
    (void) dt;
    return p;
}

// cut [0,total) into write sizes aimed at block edges
inline std::vector<uint32_t> gen_partition(Tape & t, int64_t total, uint32_t spd, int max_parts) {
    std::vector<uint32_t> parts;
    int64_t left = total;
    while (left > 0) {
        if ((int) parts.size() >= max_parts - 1) { parts.push_back((uint32_t) left); break; }
        int64_t n;
        switch (t.weighted({3, 2, 3, 3, 2})) {
            case 0: n = left; break;
            case 1: n = t.range(1, 9); break;
            case 2: n = (int64_t) spd + t.range(-1, 1); break;
            case 3: n = t.range(1, (int64_t) spd * 3 + 1); break;
            default: n = t.range(1, left); break;
        }
        if (n < 1) n = 1;
        if (n > left) n = left;
        parts.push_back((uint32_t) n);
        left -= n;
    }
    return parts;
}

// ---------------------------------------------------------------------------------------------
// General writer program (C05, C14, C17, C19, C03): several signals/types, contiguous FSR streams
// cut into writes, omit toggles, annotations, UTC, user data, flushes, interleaved.
// "Big block" shape: one FSR signal whose DATA chunks are about 1-5 KiB (block payload a multiple of 128 bytes, biased to
// 3968 bytes = chunk size 4024), a handful of blocks, a few annotations / UTC entries in between.  With such chunk sizes the
// end of a crash image lies 1 KiB (+ k*1000 bytes) behind a chunk header for some of the crash points, which is where the
// reader's backward scan for the last valid chunk (1 KiB windows) switches windows.
inline Program gen_bigblock(Tape & t, int size) {
    Program p;
    p.ops.push_back(gen_source(t, 1));
    // bytes of sample data per block: chosen first, so that the chunk size (B + 56) sits next to a multiple of 1 KiB
    // (B = 1024k - 32: a complete chunk ends 1024k + 24 bytes after its start; B = 1024k - 64: chunk + the next chunk's
    // header = 1024k + 24; B = 3968: chunk = 1024 + 3*1000), or is any multiple of 32 bytes
    int64_t B;
    switch (t.weighted({3, 3, 3, 1, 4})) {
        case 0: B = 3968; break;
        case 1: B = 1024 * t.range(1, 4) - 32; break;
        case 2: B = 1024 * t.range(1, 4) - 64; break;
        case 3: B = 1024 * t.range(1, 4); break;
        default: B = 32 * t.range(28, 160); break;
    }
    // a data type whose summary entry granularity divides B (sdf * bits must be a multiple of 256 bits and sdf >= 10)
    struct TG { const char * name; int gran; };
    static const TG TY[] = {{"u8", 32}, {"u16", 32}, {"i16", 32}, {"u4", 32}, {"f32", 64}, {"i32", 64}, {"u32", 64}, {"f64", 128}};
    std::vector<const TG *> ok;
    for (auto & x : TY) if (B % x.gran == 0) ok.push_back(&x);
    const TG & tg = *ok[t.below((uint32_t) ok.size())];
    const DType & dt = *dtype_by_name(tg.name);
    int id = (int) t.range(1, 255);
    Tape empty(nullptr, 0);
    Op def = gen_signal(empty, id, 1, dt, DEF_MINIMAL);
    def.spd = (uint32_t) (B * 8 / dt.bits);
    def.sdf = (uint32_t) (tg.gran * 8 / dt.bits);          // tg.gran bytes of samples per summary entry
    def.eps = (uint32_t) ((def.spd / def.sdf) * (uint32_t) t.pick(std::vector<int64_t>{1, 2, 10}));
    if (def.eps < 10) def.eps = 10;
    def.sumdf = 10;
    def.annodf = 10; def.utcdf = 10;
    p.ops.push_back(def);
    int64_t first = t.chance(1, 2) ? 0 : t.range(1, 100000);
    int64_t nblocks = t.range(2, 4 + size / 25);
    int64_t total = nblocks * def.spd + (t.chance(1, 2) ? t.range(1, def.spd - 1) : 0);
    Pattern pat = gen_pattern(t, dt, {"random", "ramp", "small"}, def.spd);
    int64_t written = 0, anno_ts = first, utc_id = first;
    while (written < total) {
        int64_t n;
        switch (t.weighted({4, 2, 1})) {
            case 0: n = def.spd; break;                                // one block per call
            case 1: n = t.range(1, 2 * (int64_t) def.spd); break;
            default: n = total - written; break;
        }
        if (n > total - written) n = total - written;
        Op o; o.op = "fsr"; o.sig = id; o.sample_id = first + written; o.n = (uint32_t) n; o.pat = pat; o.poff = written;
        p.ops.push_back(o);
        written += n;
        if (t.chance(1, 4)) { Op a; a.op = "anno"; a.sig = id; anno_ts += t.range(0, 50); a.ts = anno_ts; a.y = 1.5f; a.atype = (int) t.range(0, 3); a.group = 0; a.stor = 2; a.data.gen = true; a.data.seed = (uint64_t) t.raw() << 1; a.data.n = (uint32_t) t.range(0, 120); a.data.text = true; p.ops.push_back(a); }
        if (t.chance(1, 6)) { Op u; u.op = "utc"; u.sig = id; utc_id += t.range(1, 500); u.sample_id = utc_id; u.utc = utc_id * 1000; p.ops.push_back(u); }
        if (t.chance(1, 8)) { Op u; u.op = "user"; u.meta = (int) t.range(0, 0xfff); u.stor = 1; u.data.gen = true; u.data.seed = (uint64_t) t.raw() << 1; u.data.n = (uint32_t) t.range(0, 900); p.ops.push_back(u); }
    }
    return p;
}

struct GenOpts {
    int max_signals = 3;
    int64_t sample_budget = 20000;
    bool allow_gaps = false;
    bool allow_big = false;        // payloads > 1 MiB
    bool allow_vsr = true;
    bool small_defs_only = true;   // keep several summary levels reachable with few samples
};

inline Program gen_general(Tape & t, int size, const GenOpts & go) {
    Program p;
    p.ops.push_back(gen_source(t, 1));
    if (t.chance(1, 4)) p.ops.push_back(gen_source(t, (int) t.range(2, 255)));
    int nsig = (int) t.range(1, go.max_signals);
    // one program in twelve has no FSR signal at all (VSR signals with annotations, the global annotation signal, user data): the
    // repair path of jls_rd_open then ends with a pointer walk instead of an FSR rebuild (found late: F-C19-3)
    const bool no_fsr = go.allow_vsr && t.chance(1, 12);
    // decided here, with early draws (Appendix C #32: a draw at the end of a long program comes from an exhausted tape and is 0)
    const bool tail28 = t.chance(1, 10);
    const uint64_t tail28_seed = t.u64();
    struct Plan { int id; const DType * dt; StoredDef sd; bool fsr; int64_t first, written, total; Pattern pat; int64_t anno_ts; int64_t utc_id; int64_t utc; bool defined; Op def; bool utc_any = false; };
    std::vector<Plan> plans;
    for (int s = 0; s < nsig; ++s) {
        Plan pl;
        pl.id = s == 0 ? (int) t.pick(std::vector<int>{1, 2, 255, 9}) : 10 + s * 3;
        pl.dt = &DTYPES[t.below(N_DTYPES)];
        pl.fsr = !(go.allow_vsr && (no_fsr || (s > 0 && t.chance(1, 8))));
        int shape = go.small_defs_only ? (int) t.weighted({6, 3, 0, 0}) : (int) t.weighted({5, 3, 1, 2});
        pl.def = gen_signal(t, pl.id, 1, *pl.dt, shape);
        if (!pl.fsr) { pl.def.stype = 1; pl.def.rate = 0; }
        pl.sd = predict_stored(pl.def, *pl.dt);
        pl.first = gen_first_id(t);
        if (pl.first > (1LL << 58)) pl.first = 1LL << 45;
        if (pl.first < -(1LL << 58)) pl.first = -(1LL << 45);
        pl.written = 0;
        int64_t l1 = (int64_t) pl.sd.eps * pl.sd.sdf;
        switch (t.weighted({1, 2, 3, 3, 2})) {
            case 0: pl.total = 0; break;                                              // empty signal
            case 1: pl.total = t.range(1, pl.sd.spd * 2); break;
            case 2: pl.total = t.range(1, l1 * 2); break;
            case 3: pl.total = l1 * t.range(1, 12) + t.range(-pl.sd.spd, pl.sd.spd); break;   // level 2 and 3 on disk
            default: pl.total = l1 * pl.sd.sumdf * t.range(1, 3) + t.range(-pl.sd.spd, pl.sd.spd); break;
        }
        if (pl.total < 0) pl.total = 0;
        int64_t cap = go.sample_budget / nsig * (size + 20) / 120;
        if (pl.dt->bits >= 32) cap /= 2;
        if (pl.total > cap) pl.total = cap;
        if (!pl.fsr) pl.total = 0;
        pl.pat = gen_pattern(t, *pl.dt, {"random", "ramp", "blocks", "blocks", "const", "small", "alt", "spike2"}, pl.sd.spd);
        pl.anno_ts = pl.first; pl.utc_id = pl.first - t.range(0, 100); pl.utc = t.range(0, 1LL << 40);
        pl.defined = false;
        plans.push_back(pl);
    }
    // definitions may come at any time: define the first now, others lazily
    auto define = [&](Plan & pl) { if (!pl.defined) { p.ops.push_back(pl.def); pl.defined = true; } };
    define(plans[0]);
    int big_left = go.allow_big ? 1 : 0;
    int guard = 0;
    while (++guard < 400) {
        bool any_left = false;
        for (auto & pl : plans) if (pl.written < pl.total) any_left = true;
        size_t kind = t.weighted({(uint32_t) (any_left ? 10 : 0), 2, 2, 1, 1, 1, 1});
        if (!any_left && t.chance(2, 3)) break;
        Plan & pl = plans[t.below((uint32_t) plans.size())];
        define(pl);
        switch (kind) {
            case 0: {
                if (pl.written >= pl.total) break;
                int64_t left = pl.total - pl.written;
                int64_t n;
                switch (t.weighted({2, 2, 3, 3})) {
                    case 0: n = t.range(1, 9); break;
                    case 1: n = (int64_t) pl.sd.spd + t.range(-1, 1); break;
                    case 2: n = t.range(1, (int64_t) pl.sd.spd * 4); break;
                    default: n = t.range(1, left); break;
                }
                if (n > left) n = left;
                if (n < 1) n = 1;
                Op o; o.op = "fsr"; o.sig = pl.id; o.sample_id = pl.first + pl.written; o.n = (uint32_t) n; o.pat = pl.pat; o.poff = pl.written; o.junk = t.chance(1, 4);
                if (go.allow_gaps && pl.written > 0 && t.chance(1, 12)) { int64_t g = t.range(1, pl.sd.spd + 3); o.sample_id += g; pl.first += 0; pl.written += g; pl.total += g; o.poff = pl.written; }
                p.ops.push_back(o);
                pl.written += n;
                break;
            }
            case 1: {   // annotation (non-decreasing per signal); also for the global signal 0
                Op a; a.op = "anno";
                bool global = t.chance(1, 5);
                a.sig = global ? 0 : pl.id;
                pl.anno_ts += t.pick(std::vector<int64_t>{0, 0, 1, 5, 100});
                a.ts = pl.anno_ts;
                if (global) a.ts = (int64_t) guard * 1000;   // strictly increasing for signal 0
                a.y = t.chance(1, 5) ? NAN : (float) t.range(-50, 50);
                a.atype = (int) t.range(0, 3); a.group = (int) t.range(0, 3); a.stor = (int) t.range(1, 3);
                bool text = a.stor != 1;
                if (big_left && t.chance(1, 10)) { a.data.gen = true; a.data.seed = (uint64_t) t.raw() << 1; a.data.n = (uint32_t) ((1 << 20) + t.range(-30, 3000)); a.data.text = text; --big_left; }
                else { a.data.gen = true; a.data.seed = (uint64_t) t.raw() << 1; a.data.n = (uint32_t) t.range(0, 40); a.data.text = text; }
                p.ops.push_back(a);
                break;
            }
            case 2: {   // UTC (FSR only)
                if (!pl.fsr) break;
                Op u; u.op = "utc"; u.sig = pl.id;
                // jls_wr_utc accepts a repeated sample id (a corrected time for the same sample): one entry in six repeats the
                // previous id with a later time.  (C12, whose statement requires strictly increasing ids, has its own generator.)
                bool repeat = pl.utc_any && t.chance(1, 6);
                if (!repeat) pl.utc_id += t.range(1, 500);
                pl.utc += t.range(1, 1LL << 32);
                u.sample_id = pl.utc_id; u.utc = pl.utc;
                pl.utc_any = true;
                p.ops.push_back(u);
                break;
            }
            case 3: {   // user data
                Op u; u.op = "user"; u.meta = (int) t.range(0, 0xfff); u.stor = (int) t.range(1, 3);
                bool text = u.stor != 1;
                u.data.gen = true; u.data.seed = (uint64_t) t.raw() << 1; u.data.text = text;
                if (big_left && t.chance(1, 6)) { u.data.n = (uint32_t) ((1 << 20) + t.range(-30, 100000)); --big_left; }
                else u.data.n = (uint32_t) t.range(text ? 0 : 0, 100);
                if (u.stor == 1 && t.chance(1, 10)) u.nulldata = true;   // rejected call (NULL data, size > 0): must leave no trace (seeded/C14d)
                else if (t.chance(1, 8)) {
                    // 28 payload bytes + their CRC have the layout of a chunk header; with 28 in the payload_length position the
                    // fake header even claims the following 32 bytes as its payload (the backward scan for the last chunk must not
                    // be fooled, neither in a closed file, where END follows, nor in an unclosed one)
                    u.stor = 1; u.nulldata = false; u.data.gen = false; u.data.text = false;
                    u.data.lit.assign(28, 0);
                    for (int q = 0; q < 28; ++q) u.data.lit[(size_t) q] = (uint8_t) (t.raw() >> 7);
                    u.data.lit[16] = (uint8_t) t.pick(std::vector<int>{0x40, 0xff, 0x22, 0x01});   // tag position: USER_DATA / END / FSR data / source def
                    u.data.lit[20] = 28; u.data.lit[21] = 0; u.data.lit[22] = 0; u.data.lit[23] = 0;
                    u.data.n = 28;
                }
                p.ops.push_back(u);
                break;
            }
            case 4: { if (!pl.fsr) break; Op o; o.op = "omit"; o.sig = pl.id; o.enable = (int) t.below(2); p.ops.push_back(o); break; }
            case 5: { Op o; o.op = "flush"; p.ops.push_back(o); break; }
            default: { for (auto & q : plans) define(q); break; }
        }
    }
    for (auto & q : plans) if (!q.defined && t.coin()) define(q);
    if (tail28) {   // ... and as the very last chunk of the file (END follows it directly)
        Op u; u.op = "user"; u.meta = 5; u.stor = 1; u.data.gen = false; u.data.lit.assign(28, 0x11);
        for (int q = 0; q < 28; ++q) u.data.lit[(size_t) q] = (uint8_t) (mix64(tail28_seed, (uint64_t) q) >> 11);
        u.data.lit[20] = 28; u.data.lit[21] = 0; u.data.lit[22] = 0; u.data.lit[23] = 0; u.data.n = 28;
        p.ops.push_back(u);
    }
    return p;
}
