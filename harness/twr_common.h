// Shared by C06/C07: generated threaded-writer programs + schedules, executed on the deterministic scheduler.
#pragma once
#include "gen_common.h"
#include "decoder.h"
#include "dump.h"
#include "vsched.h"
#include <set>

static const uint32_t TWR_QUEUE_BYTES = 1024;   // JLS_VERIF_MRB_BUFFER_SIZE of the sched builds (see propcfg.py)

struct TwrCase {
    Program prog;                 // via = twr; ops may include "flush"
    bool drop = false;            // JLS_TWR_FLAG_DROP_ON_OVERFLOW
    int second_from = -1;         // ops of signal `second_sig` are issued by a second application thread
    int second_sig = -1;
    sched::Schedule sch;
};

inline mj::Value twr_case_json(const TwrCase & c) {
    mj::Value v = mj::Value::object();
    v.set("program", program_to_json(c.prog));
    v.set("drop", c.drop);
    v.set("second_sig", c.second_sig);
    mj::Value s = mj::Value::object();
    mj::Value ch = mj::Value::array();
    for (auto x : c.sch.choices) ch.push((long long) x);
    s.set("choices", ch);
    mj::Value lat = mj::Value::array();
    for (auto & kv : c.sch.latency_ms) { mj::Value e = mj::Value::array(); e.push((long long) kv.first); e.push((long long) kv.second); lat.push(e); }
    s.set("latency", lat);
    if (!c.sch.pct.empty()) { mj::Value pc = mj::Value::array(); for (auto x : c.sch.pct) pc.push((long long) x); s.set("pct", pc); }
    v.set("schedule", s);
    return v;
}

inline TwrCase twr_case_from(const mj::Value & v) {
    TwrCase c;
    c.prog = program_from_json(v.at("program"));
    c.prog.via = "twr";
    c.drop = v.has("drop") && v.at("drop").as_bool();
    c.second_sig = (int) v.get_int("second_sig", -1);
    if (v.has("schedule")) {
        const mj::Value & s = v.at("schedule");
        if (s.has("choices")) for (auto & x : s.at("choices").a) c.sch.choices.push_back((uint32_t) x.as_int());
        if (s.has("pct")) for (auto & x : s.at("pct").a) c.sch.pct.push_back((uint32_t) x.as_int());
        if (s.has("latency")) for (auto & e : s.at("latency").a) c.sch.latency_ms[(uint64_t) e.a[0].as_int()] = e.a[1].as_int();
    }
    return c;
}

inline TwrCase gen_twr_case(Tape & t, int size, bool many_flushes) {
    TwrCase c;
    Program & p = c.prog;
    p.via = "twr";
    p.ops.push_back(gen_source(t, 1));
    int nsig = t.chance(1, many_flushes ? 2 : 3) ? 2 : 1;
    struct Plan { int id; const DType * dt; int64_t first, written; Pattern pat; int64_t anno_ts, utc_id; };
    std::vector<Plan> plans;
    for (int s = 0; s < nsig; ++s) {
        Plan pl;
        pl.id = s == 0 ? 1 : 2;
        static const char * TY[] = {"u8", "f32", "u16", "u1", "i32", "u4", "f64"};
        pl.dt = dtype_by_name(TY[t.below(7)]);
        Op def = gen_signal(t, pl.id, 1, *pl.dt, DEF_MINIMAL);
        p.ops.push_back(def);
        pl.first = t.chance(1, 2) ? 0 : t.range(-1000, 100000);
        pl.written = 0;
        pl.pat = gen_pattern(t, *pl.dt, {"random", "ramp", "blocks", "small"}, 32);
        pl.anno_ts = pl.first; pl.utc_id = pl.first;
        plans.push_back(pl);
    }
    if (nsig == 2 && (many_flushes ? t.chance(2, 3) : t.chance(1, 2))) c.second_sig = 2;
    c.drop = t.chance(1, 3);
    int nops = (int) t.range(3, 10 + size / 3);
    for (int k = 0; k < nops; ++k) {
        Plan & pl = plans[t.below((uint32_t) plans.size())];
        size_t kind = t.weighted({10, 2, 1, 2, 1, (uint32_t) (many_flushes ? 5 : 1)});
        switch (kind) {
            case 0: {
                // payload sizes aimed at the queue capacity: small, a third, most of it
                int64_t bytes;
                switch (t.weighted({3, 3, 2, 1})) {
                    case 0: bytes = t.range(1, 40); break;
                    case 1: bytes = (int64_t) TWR_QUEUE_BYTES / 3 + t.range(-20, 20); break;
                    case 2: bytes = (int64_t) TWR_QUEUE_BYTES - 60 - t.range(0, 60); break;
                    default: bytes = (int64_t) TWR_QUEUE_BYTES + t.range(-10, 200); break;   // does not fit at all
                }
                int64_t n = bytes * 8 / pl.dt->bits;
                if (pl.dt->bits < 8) n += t.range(0, 8 / pl.dt->bits - 1);   // sub-byte types: messages that end inside a byte
                if (n < 1) n = 1;
                Op o; o.op = "fsr"; o.sig = pl.id; o.sample_id = pl.first + pl.written; o.n = (uint32_t) n; o.pat = pl.pat; o.poff = pl.written;
                p.ops.push_back(o);
                pl.written += n;
                break;
            }
            case 1: { Op a; a.op = "anno"; a.sig = t.chance(1, 5) ? 0 : pl.id; pl.anno_ts += t.range(0, 5); a.ts = a.sig == 0 ? k * 100 : pl.anno_ts; a.y = (float) t.range(-5, 5); a.atype = (int) t.range(0, 3); a.group = 0; a.stor = (int) t.range(1, 3);
                      a.data.gen = true; a.data.seed = (uint64_t) t.raw() << 1; a.data.n = (uint32_t) t.range(0, 50); a.data.text = a.stor != 1; p.ops.push_back(a); break; }
            case 2: { Op u; u.op = "utc"; u.sig = pl.id; pl.utc_id += t.range(1, 100); u.sample_id = pl.utc_id; u.utc = (int64_t) k * 1000000; p.ops.push_back(u); break; }
            case 3: { Op u; u.op = "user"; u.meta = (int) t.range(0, 0xfff); u.stor = (int) t.range(1, 3); u.data.gen = true; u.data.seed = (uint64_t) t.raw() << 1; u.data.n = (uint32_t) t.range(0, 300); u.data.text = u.stor != 1; p.ops.push_back(u); break; }
            case 4: { Op o; o.op = "omit"; o.sig = pl.id; o.enable = (int) t.below(2); p.ops.push_back(o); break; }
            default: { Op o; o.op = "flush"; if (many_flushes && c.second_sig >= 0 && t.chance(1, 2)) o.sig = c.second_sig;   // flush issued by the second application thread
                       p.ops.push_back(o); break; }
        }
    }
    // schedule: a uniform choice vector (covers the first few hundred choice points densely, then runs without preemption), or a
    // PCT-style priority schedule (random thread ranks + 0..4 change points spread over the whole run, some of them time jumps)
    if (t.chance(2, 5)) {
        for (int k = 0; k < 3; ++k) c.sch.pct.push_back(t.raw() % 1000);
        int d = (int) t.weighted({2, 3, 3, 2, 1});
        int64_t horizon = t.pick(std::vector<int64_t>{40, 200, 1000, 4000});
        for (int k = 0; k < d; ++k) {
            uint32_t at = (uint32_t) t.range(0, horizon);
            if (t.chance(1, 6)) at |= 0x80000000u;
            c.sch.pct.push_back(at);
        }
    } else {
        int nch = (int) t.range(0, 40 + size * 4);
        for (int k = 0; k < nch; ++k) {
            uint32_t c2 = t.raw();
            if (!t.chance(1, 12)) c2 &= 0x7fffffffu;   // the top bit asks for a time jump (a sleeper runs although others could)
            c.sch.choices.push_back(c2);
        }
    }
    int nlat = (int) t.weighted({6, 2, 1});
    for (int k = 0; k < nlat; ++k) c.sch.latency_ms[(uint64_t) t.range(0, 400)] = t.pick(std::vector<int64_t>{6000, 25000, 100, 4999, 20001});
    return c;
}

struct Submission { size_t op_index; int thread; int32_t rc; int64_t t_call_ms, t_return_ms; size_t trace_pos_call, trace_pos_return; };

struct TwrRun {
    std::vector<Submission> subs;
    int32_t open_rc = 0, close_rc = 0;
    std::string verdict;
    std::vector<sched::Event> trace;
    sched::Stats stats;
};

// Executes the case under the scheduler.  The file is "twr.jls" in the VFS.
inline TwrRun run_twr_case(const TwrCase & c, const char * path) {
    TwrRun r;
    Model m;   // only used by exec_op to know the data types of defined signals
    sched::run(c.sch, [&]() {
        Writer w;
        r.open_rc = w.open("twr", path);
        if (r.open_rc) return;
        if (c.drop) jls_twr_flags_set(w.twr, JLS_TWR_FLAG_DROP_ON_OVERFLOW);
        auto issue = [&](size_t k) {
            const Op & o = c.prog.ops[k];
            Submission s; s.op_index = k; s.thread = sched::current_thread(); s.t_call_ms = sched::now_ms(); s.trace_pos_call = sched::trace().size();
            sched::record("submit_call", (int64_t) k);
            s.rc = exec_op(w, o, m);
            s.t_return_ms = sched::now_ms();
            sched::record("submit_return", (int64_t) k, 0, 0, s.rc);
            s.trace_pos_return = sched::trace().size();
            r.subs.push_back(s);
            if (s.rc == 0 && (o.op == "source" || o.op == "signal")) m.apply(o);
        };
        int second = -1;
        std::vector<size_t> second_ops;
        size_t first_second = c.prog.ops.size();
        if (c.second_sig >= 0) {
            // everything for signal second_sig after its definition is issued by a second application thread
            bool defined = false;
            for (size_t k = 0; k < c.prog.ops.size(); ++k) {
                const Op & o = c.prog.ops[k];
                if (o.op == "signal" && o.id == c.second_sig) { defined = true; continue; }
                if (defined && (o.op == "fsr" || o.op == "utc" || o.op == "omit" || o.op == "flush" || (o.op == "anno" && o.sig == c.second_sig)) && o.sig == c.second_sig) { second_ops.push_back(k); if (k < first_second) first_second = k; }
            }
        }
        std::set<size_t> second_set(second_ops.begin(), second_ops.end());
        for (size_t k = 0; k < c.prog.ops.size(); ++k) {
            if (second_set.count(k)) {
                if (second < 0) second = sched::spawn_app([&, second_ops]() { for (size_t q : second_ops) issue(q); });
                continue;
            }
            issue(k);
        }
        if (second >= 0) sched::join_app(second);
        sched::record("close_call");
        r.close_rc = w.close();
        sched::record("close_return", 0, 0, 0, r.close_rc);
    }, r.verdict);
    r.trace = sched::trace();
    r.stats = sched::stats();
    return r;
}
