/* Force-included (-include) in front of src/backend_posix.c only: redirects the seven libc
 * I/O calls of the backend to the in-memory VFS.  No source change in the repository. */
#ifndef VERIF_VFS_SHIM_H
#define VERIF_VFS_SHIM_H
#include <sys/types.h>
#include <sys/stat.h>
#include <fcntl.h>
#include <unistd.h>
#ifdef __cplusplus
extern "C" {
#endif
int vfs_open(const char * path, int oflag, ...);
int vfs_close(int fd);
ssize_t vfs_read(int fd, void * buf, size_t count);
ssize_t vfs_write(int fd, const void * buf, size_t count);
off_t vfs_lseek(int fd, off_t offset, int whence);
int vfs_ftruncate(int fd, off_t length);
int vfs_fsync(int fd);
#ifdef __cplusplus
}
#endif
#ifndef VERIF_VFS_IMPL
#define open vfs_open
#define close vfs_close
#define read vfs_read
#define write vfs_write
#define lseek vfs_lseek
#define ftruncate vfs_ftruncate
#define fsync vfs_fsync
#endif
#endif
