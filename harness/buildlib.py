"""Content-addressed build cache for the jls objects (from the *current* /repo working tree)
and the harness objects.  Every object is keyed by (command, source bytes, all header bytes),
so an edit anywhere under src/ include/ include_prv/ or harness/ forces exactly the needed
recompiles and an unchanged tree costs nothing.  Stdlib only."""
import hashlib, os, subprocess, sys, glob, time, shutil
from concurrent.futures import ThreadPoolExecutor

VERIF = os.path.dirname(os.path.dirname(os.path.abspath(__file__)))
HARNESS = os.path.join(VERIF, "harness")
BUILD = os.path.join(VERIF, ".build")
OBJ = os.path.join(BUILD, "obj")
BIN = os.path.join(BUILD, "bin")

# sources of the library that are translation units of their own (the crc32c_* variants are
# #included by crc32c.c; backend_win.c is for Windows)
NOT_TU = {"backend_win.c", "crc32c_arm_neon.c", "crc32c_intel_sse4.c", "crc32c_sw.c"}

VARIANTS = {
    # everything functional runs under ASan (+ leak detection at exit)
    "asan": dict(cc="clang", cxx="clang++",
                 cflags="-O1 -g -fsanitize=address -fno-omit-frame-pointer -fno-optimize-sibling-calls",
                 ldflags="-fsanitize=address"),
    "fuzz": dict(cc="clang", cxx="clang++",
                 cflags="-O1 -g -fsanitize=fuzzer-no-link,address -fno-omit-frame-pointer",
                 ldflags="-fsanitize=fuzzer,address"),
    "fast": dict(cc="gcc", cxx="g++", cflags="-O2 -g", ldflags=""),
    # real threads under ThreadSanitizer (C06 real-thread part)
    "tsan": dict(cc="clang", cxx="clang++", cflags="-O1 -g -fsanitize=thread -fno-omit-frame-pointer", ldflags="-fsanitize=thread"),
}
COMMON_C = "-std=gnu99 -msse4.2 -DJLS_VERIF=1 -w"
COMMON_CXX = "-std=gnu++17 -msse4.2 -DJLS_VERIF=1 -Wall -Wno-unused-function -Wno-unused-variable"


def sha(*parts):
    h = hashlib.sha256()
    for p in parts:
        if isinstance(p, str):
            p = p.encode()
        h.update(p)
        h.update(b"\0")
    return h.hexdigest()[:32]


def read(path):
    with open(path, "rb") as f:
        return f.read()


def tree_hash(dirs, exts):
    h = hashlib.sha256()
    for d in dirs:
        for root, _, files in sorted(os.walk(d)):
            for fn in sorted(files):
                if fn.endswith(exts):
                    p = os.path.join(root, fn)
                    h.update(os.path.relpath(p, d).encode())
                    h.update(read(p))
    return h.hexdigest()[:32]


class Builder:
    def __init__(self, repo, variant="asan", extra_defs="", verbose=False):
        self.repo = repo
        self.variant = variant
        self.v = VARIANTS[variant]
        self.extra_defs = extra_defs
        self.verbose = verbose
        os.makedirs(OBJ, exist_ok=True)
        os.makedirs(BIN, exist_ok=True)
        self.repo_hdr_hash = tree_hash([os.path.join(repo, "include"), os.path.join(repo, "include_prv")], (".h",))
        # the crc32c_*.c files are included like headers
        self.repo_inc_c_hash = sha(*[read(os.path.join(repo, "src", f)) for f in sorted(NOT_TU)
                                     if os.path.exists(os.path.join(repo, "src", f))])
        self.harness_hdr_hash = tree_hash([HARNESS], (".h",))
        self.inc = "-I%s -I%s" % (os.path.join(repo, "include"), os.path.join(repo, "include_prv"))
        self.repo_src_hash = tree_hash([os.path.join(repo, "src")], (".c", ".h"))

    def _compile(self, cmd, src, key_extra):
        key = sha(cmd, read(src), key_extra)
        out = os.path.join(OBJ, key + ".o")
        if os.path.exists(out):
            try:
                os.utime(out, None)
            except OSError:
                pass
            return out
        tmp = out + ".tmp%d" % os.getpid()
        full = "%s -c %s -o %s" % (cmd, src, tmp)
        if self.verbose:
            print("[build]", full, file=sys.stderr)
        r = subprocess.run(full, shell=True, stdout=subprocess.PIPE, stderr=subprocess.STDOUT)
        if r.returncode != 0:
            sys.stderr.write(r.stdout.decode(errors="replace"))
            raise RuntimeError("compile failed: " + full)
        os.replace(tmp, out)
        return out

    def jls_jobs(self, sched=False, mrb_size=None):
        jobs = []
        srcdir = os.path.join(self.repo, "src")
        for fn in sorted(os.listdir(srcdir)):
            if not fn.endswith(".c") or fn in NOT_TU:
                continue
            src = os.path.join(srcdir, fn)
            cmd = "%s %s %s %s %s" % (self.v["cc"], COMMON_C, self.v["cflags"], self.extra_defs, self.inc)
            if fn == "backend_posix.c":
                cmd += " -include %s" % os.path.join(HARNESS, "vfs_shim.h")
                if sched:
                    cmd += " -include %s" % os.path.join(HARNESS, "sched_shim.h")
            if fn == "threaded_writer.c":
                if mrb_size:
                    cmd += " -DJLS_VERIF_MRB_BUFFER_SIZE=%d" % mrb_size
                if sched:
                    cmd += " -include %s" % os.path.join(HARNESS, "sched_twr_shim.h")
            jobs.append((cmd, src, self.repo_hdr_hash + self.repo_inc_c_hash + self.harness_hdr_hash))
        return jobs

    def harness_job(self, relpath, defs=""):
        src = os.path.join(HARNESS, relpath)
        if relpath.endswith(".c"):
            cmd = "%s %s %s %s %s %s -I%s -I%s" % (self.v["cc"], COMMON_C, self.v["cflags"], self.extra_defs, defs, self.inc, HARNESS, os.path.join(self.repo, "src"))
            return (cmd, src, self.repo_hdr_hash + self.harness_hdr_hash + self.repo_src_hash)
        elif relpath in ("rc_main.cpp", "fuzz_main.cpp"):
            cmd = "%s %s %s -I%s" % (self.v["cxx"], COMMON_CXX, self.v["cflags"], HARNESS)
            return (cmd, src, self.harness_hdr_hash)
        else:
            cmd = "%s %s %s %s %s %s -I%s" % (self.v["cxx"], COMMON_CXX, self.v["cflags"], self.extra_defs, defs, self.inc, HARNESS)
        return (cmd, src, self.repo_hdr_hash + self.harness_hdr_hash + self.repo_inc_c_hash)

    def compile_all(self, jobs):
        with ThreadPoolExecutor(max_workers=16) as ex:
            return list(ex.map(lambda j: self._compile(*j), jobs))

    def link(self, objs, libs="-lrapidcheck -lm -lpthread"):
        cmd = "%s %s" % (self.v["cxx"], self.v["ldflags"])
        key = sha(cmd, libs, *[os.path.basename(o) for o in objs])
        out = os.path.join(BIN, key)
        if os.path.exists(out):
            try:
                os.utime(out, None)
            except OSError:
                pass
            return out
        tmp = out + ".tmp%d" % os.getpid()
        full = "%s %s -o %s %s" % (cmd, " ".join(objs), tmp, libs)
        if self.verbose:
            print("[link]", full, file=sys.stderr)
        r = subprocess.run(full, shell=True, stdout=subprocess.PIPE, stderr=subprocess.STDOUT)
        if r.returncode != 0:
            sys.stderr.write(r.stdout.decode(errors="replace"))
            raise RuntimeError("link failed")
        os.replace(tmp, out)
        return out


def prune(max_bytes=6 << 30):
    """LRU-prune the object/binary cache."""
    ents = []
    for d in (OBJ, BIN):
        if not os.path.isdir(d):
            continue
        for fn in os.listdir(d):
            p = os.path.join(d, fn)
            try:
                st = os.stat(p)
                ents.append((st.st_mtime, st.st_size, p))
            except OSError:
                pass
    total = sum(e[1] for e in ents)
    ents.sort()
    for mt, sz, p in ents:
        if total <= max_bytes:
            break
        if time.time() - mt < 3600:
            break
        try:
            os.remove(p)
            total -= sz
        except OSError:
            pass
