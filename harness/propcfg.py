"""Per-property build + budget configuration for ./check."""

COMMON = ["vfs.cpp"]

def T(qcases, tcases, qbudget=240, tbudget=1500, workers=16):
    return {"quick": dict(cases=qcases, budget_s=qbudget, workers=workers),
            "thorough": dict(cases=tcases, budget_s=tbudget, workers=workers)}

PROPS = {
    "C20": dict(sources=["props/C20.cpp"], jls=True, tiers=T(4000, 60000),
                assumptions=["long double (x87 80-bit) two-pass reference is exact enough for n <= 10^4",
                             "error bounds: mean 2(n+4)eps*A; S 8n*eps*(S+A*sqrt(nS))+4n^3eps^2A^2 (Welford/pairwise bound)"]),
}

HOOK_COMMITS = []

MANIFEST_TEXT = {
    "C20": dict(
        technique="property-based testing (rapidcheck tape) against a long-double two-pass reference; algebraic laws (identity, aliasing) checked bitwise",
        level_text="Generated sequences (explicit small ones and seven patterns up to 10^4 samples over 200 decades), split points, per-part accumulation method, combine order and aliasing; k/min/max exact, mean and S within a stated rounding bound of a long-double reference, variance >= 0, identity and aliasing bit-exact. Sampling, not proof; failures shrink to a few explicit values.",
        level_note="Trusted: the long-double reference and the stated error bounds (frozen after calibration on the unchanged tree); ASan for memory errors."),
}

_ALL = ["C%02d" % k for k in range(1, 21)]
NOT_APPLICABLE = [dict(property_id=p, reason="check not built yet in this revision of /verif (work in progress; the technique applies)")
                  for p in _ALL if p not in PROPS or PROPS[p].get("unclaimed")]
