"""Per-property build + budget configuration for ./check."""

COMMON = ["vfs.cpp"]

def T(qcases, tcases, qbudget=240, tbudget=1500, workers=16):
    return {"quick": dict(cases=qcases, budget_s=qbudget, workers=workers),
            "thorough": dict(cases=tcases, budget_s=tbudget, workers=workers)}

PROPS = {
    "C07": dict(sources=["props/C07.cpp", "vsched.cpp"], jls=True, sched=True, mrb_size=1024, enumerate=True, tiers=T(2000, 40000),
                assumptions=["same scheduler and scheduling points as C06; liveness is decided as: no deadlock (no runnable thread, no sleeper) and completion within 3e6 scheduling steps under the generated schedule followed by run-to-completion",
                             "a flush that returns TIMED_OUT asserts nothing; 'had returned before the flush call started' is judged on the global trace order of the scheduler",
                             "a livelock that depends on real time passing differently from the virtual clock is out of reach"]),
    # real-thread ThreadSanitizer part of C06 (run by ./check C06 as extra workers; not a check of its own)
    "C06r": dict(hidden=True, sources=["props/C06r.cpp"], jls=True, mrb_size=1024, variant="tsan",
                 tiers={"quick": dict(cases=150, workers=4), "thorough": dict(cases=3000, workers=6)}),
    "C06": dict(sources=["props/C06.cpp", "vsched.cpp"], jls=True, sched=True, mrb_size=1024, enumerate=True, tiers=T(1600, 30000), aux=["C06r"],
                assumptions=["scheduling points: every pthread operation, sleep and clock read of backend_posix.c, every queue operation, the middle of every memcpy and every synchronous-writer call in threaded_writer.c, every backend I/O call; code between two points runs atomically",
                             "queue capacity 1024 bytes through the JLS_VERIF_MRB_BUFFER_SIZE hook",
                             "besides the sampled schedules (choice vectors with shrinking) every schedule with <= 2 preemptions (quick) / <= 3 (thorough) of five tiny two-thread programs, and <= 1 / <= 2 of a three-thread program, is enumerated; time jumps are only sampled",
                             "unsynchronised accesses that are neither queue operations nor writer calls are invisible to the scheduler part; the real-thread part runs the same programs on genuine pthreads in a ThreadSanitizer build (any report = violation), which sees every instrumented access of the library but only the interleavings the machine happens to produce"]),
    "C10": dict(sources=["props/C10.cpp"], jls=True, mrb_size=1 << 16, tiers=T(600, 12000, workers=12), fuzz=dict(workers=4, quick=40, thorough=900, max_len=2048),
                assumptions=["instance pointers are live, data pointers valid, strings NUL-terminated, caller buffers exactly the documented size (1 byte where the call must be rejected)",
                             "a reader/raw handle/copy is never opened on the file an open writer is writing (jls_rd_open would repair it underneath the writer)",
                             "the threaded writer only queues data calls: wrong-id data calls are judged by C06 (nothing reaches the file), not by their return code",
                             "gaps are bounded to 200000 samples and sample counts to 100000 so that valid requests stay cheap; huge allocations may fail with NOT_ENOUGH_MEMORY (accepted)"]),
    "C04": dict(sources=["props/C04.cpp"], jls=True, level="fault_enumeration", enumerate=True, tiers=T(60, 1200, qbudget=300, tbudget=1800),
                fuzz=dict(workers=4, quick=0, thorough=600, max_len=2048),
                enum_timeout={"quick": 600, "thorough": 2400}, worker_variants=["fast", "fast", "fast", "asan"],
                assumptions=["'certain' class: <= 3 flipped bits or one burst <= 32 bits per protected region; zeroed/overwritten ranges are also judged (a 2^-32 CRC collision would be reported as a violation and needs manual triage)",
                             "an open that wrote to the file (repair) may expose a prefix of the baseline; otherwise every successful result must equal the baseline's",
                             "splicing whole valid chunks is outside the property's certain clause and is not generated"]),
    "C02": dict(sources=["props/C02.cpp"], jls=True, tiers=T(600, 12000),
                assumptions=["tolerances (stats_oracle.h): mean (L+2)*(2u*A + n*2^-53*A) with u = 2^-24 (f32 summaries) or 2^-53 (f64 summaries), A = max|x|, L = levels, n = max(sdf, sumdf); std additionally 4*sqrt(tau*A)",
                             "64-bit types: an error return is accepted (the reader documents that raw-sample statistics of 64-bit types are unsupported); 24-bit types cannot be summarised and are excluded",
                             "windows containing gap fill are excluded (C09)"]),
    "C15": dict(sources=["props/C15.cpp"], jls=True, tiers=T(2000, 20000),
                assumptions=["'enable is delayed by one block' is not predicted: which blocks are omitted is read from the level-1 index of the omit run",
                             "blocks omitted on request are only required to read back with rc 0 and the right number of samples; automatically omitted constant blocks of <= 8-bit types must be bit-exact"]),
    "C19": dict(sources=["props/C19.cpp"], jls=True, level="fault_enumeration", tiers=T(2000, 20000, qbudget=300, tbudget=1800),
                worker_variants=["fast", "fast", "fast", "asan"],
                assumptions=["crash images as in C03 (exact write-log replay); only images that jls_rd_open accepts are judged",
                             "'same answers' = dump_compare over definitions, lengths, all samples, a statistics battery, annotations, UTC, user data",
                             "the real-file class writes a scratch file under /tmp, reads it through the genuine backend and removes it"]),
    "C03": dict(sources=["props/C03.cpp"], jls=True, level="fault_enumeration", tiers=T(60, 900, qbudget=300, tbudget=1800),
                worker_variants=["fast", "fast", "fast", "asan"],
                assumptions=["crash images are exact replays of the backend write log (every write/truncate of backend_posix.c) up to operation k plus b bytes of operation k+1; the page cache is assumed to persist writes in order",
                             "'submitted' counts the samples of calls that had started when the writer stopped; the loss bound uses calls that had completed",
                             "signals with omission on request are not compared sample by sample (the reader synthesises omitted blocks)",
                             "each case examines the boundaries k = phase (mod stride); all boundaries are covered across cases, not within one case"]),
    "C17": dict(sources=["props/C17.cpp"], jls=True, tiers=T(750, 10000),
                assumptions=["statistics of original and copy are compared with relative tolerance 1e-9 (same data, same block structure)",
                             "for unclosed/cut originals the original is dumped after copying (opening repairs it) and must be contained in the copy's dump; a cut source that jls_copy refuses is not judged"]),
    "C14": dict(sources=["props/C14.cpp"], jls=True, mrb_size=1 << 22, tiers=T(1200, 20000),
                assumptions=["the file header written by jls_wr_open is an append (empty file); its rewrite at close is the only other write at offset 0",
                             "a head-table rewrite is the 128-byte payload followed by its 8-byte footer (pad + CRC)"]),
    "C05": dict(sources=["props/C05.cpp"], jls=True, mrb_size=1 << 22, tiers=T(1000, 16000),
                assumptions=["decoder follows format.h/README; where they are silent (SOURCE_DEF/SIGNAL_DEF serialisation, string terminator {0,0x1f}, annotation payload header) it follows the de-facto layout and reports deviations as observations only",
                             "structural predicates are asserted for chunks reachable from the initial lists, head tables and index entries; byte-level predicates for every chunk (orphans left by repair are counted)",
                             "threaded origin uses real threads with a 4 MiB queue (JLS_VERIF_MRB_BUFFER_SIZE); schedules are explored by C06"]),
    "C12": dict(sources=["props/C12.cpp"], jls=True, tiers=T(1500, 25000),
                assumptions=["UTC sample ids are reported relative to the first sample id; anchors lie within [first sample - 1 h, last sample] (what the reader documents loading)",
                             "times advance by at least one tick per sample (strictly increasing), spans stay below 2^50 ticks so that the 1-tick bound is meaningful for double arithmetic",
                             "tolerance: 1 tick + 1e-14 * distance from the first anchor"]),
    "C11": dict(sources=["props/C11.cpp"], jls=True, tiers=T(600, 10000),
                assumptions=["annotation timestamps of FSR signals are reported relative to the first sample id (reader.h)",
                             "string/json payloads are returned with their terminating NUL counted in data_size"]),
    "C13": dict(sources=["props/C13.cpp"], jls=True, tiers=T(800, 10000),
                assumptions=["strings are NUL-terminated byte strings without interior NUL; any other byte value is allowed",
                             "a definition whose string exceeds the internal 1 MiB string block may be rejected (but must not corrupt anything)",
                             "user data written with storage type 0 (INVALID) is the writer's own marker and is not returned by the reader"]),
    "C09": dict(sources=["props/C09.cpp"], jls=True, tiers=T(3200, 50000),
                assumptions=["gap fill must read back as NaN (any NaN) for f32/f64 and as 0 for integers",
                             "stored level-1 summaries are observed through summary-aligned jls_rd_fsr_statistics requests (increment = sample_decimate_factor, >= 25 entries); the last requested entry is recomputed from raw samples by the reader and is not judged"]),
    "C01": dict(sources=["props/C01.cpp"], jls=True, tiers=T(2700, 40000),
                assumptions=["reader buffers are exactly the size reader.h documents (1 + n*bits/8 bytes for sub-byte types)",
                             "contiguous writes only (gaps/overlaps are C09); quick tier <= ~50k samples per case"]),
    "C16": dict(sources=["props/C16.cpp"], jls=True, enumerate=True, tiers=T(150, 6000),
                assumptions=["'multiple of 256 bits' is asserted for power-of-two widths; for 24-bit samples only byte alignment (256/24 is not integral; the format relies on byte alignment)",
                             "definitions with all four fields <= 1000 must be accepted (they are documented as write suggestions)",
                             "24-bit types have no default table in this commit: zero fields there are only held to the minimums",
                             "SMT over the full 2^128 domain is not attempted (different technique family); sampled instead"]),
    "C08": dict(sources=["props/C08.cpp"], jls=True, enumerate=True, tiers=T(12000, 150000),
                fuzz=dict(workers=4, quick=0, thorough=300, max_len=1024),
                assumptions=["'genuinely does not fit' is read as: no contiguous free region of size+4 bytes; the implementation's 8 bytes of marker/disambiguation slack are accepted either way (must succeed with size+12 free)",
                             "usable capacity after emptying = capacity-12"]),
    "C18": dict(sources=["props/C18.cpp", "props/C18_sw.c"], jls=True, enumerate=True, tiers=T(6000, 80000),
                fuzz=dict(workers=4, quick=0, thorough=300, max_len=256),
                assumptions=["bit-serial reference implements the standard CRC-32C definition (check value 0xE3069283 asserted)",
                             "crc32c_arm_neon.c cannot be compiled on this x86 sandbox: not covered"]),
    "C20": dict(sources=["props/C20.cpp"], jls=True, tiers=T(40000, 450000),
                assumptions=["long double (x87 80-bit) two-pass reference is exact enough for n <= 10^4",
                             "error bounds: mean 2(n+4)eps*A; S 8n*eps*(S+A*sqrt(nS))+4n^3eps^2A^2 (Welford/pairwise bound)"]),
}

HOOK_COMMITS = ["6203c3e4032b5e35344eee56bc8020982a6abdeb"]

MANIFEST_TEXT = {
    "C07": dict(
        engine="rapidcheck + deterministic scheduler",
        technique="schedule exploration with virtual time on the deterministic scheduler (sampled schedules with time jumps and I/O latencies + bounded-preemption enumeration on tiny programs); history invariants over the execution trace (submission returns, applied calls, backend fsync, thread activity) + deadlock/no-progress detection",
        level_text="Programs with flushes throughout and one or two application threads run under generated schedules in which the queue is often full and the 5 s send / 20 s flush timeouts fire in virtual time. A successful flush must be preceded by the application of every data call that had returned before it started and by a backend fsync after the last of them; close must leave every accepted call applied, the writer thread finished and a well-formed closed file; the scheduler aborts with a verdict on deadlock or when 3e6 steps do not finish the program.",
        level_note="Trusted: vsched.cpp; the trace order of a serialised execution. Schedules are sampled; in addition every schedule with at most 2 (thorough: 3) preemptions of five tiny two-thread programs with flushes is enumerated, without time jumps; for the three-thread program (two producers) the bound is 1 in the quick tier (complete) and 2 in the thorough tier, where the recorded run was stopped by its wall-clock share after 327 438 schedules (reported as complete: false in the evidence - a budget never decides a verdict)."),
    "C06": dict(
        engine="rapidcheck + deterministic scheduler",
        technique="schedule exploration on a deterministic scheduler with virtual time (interposed pthread/sleep/clock, queue, memcpy and I/O points): sampled schedules (uniform choice vectors and PCT-style priority schedules) x generated programs (shrinking) + bounded-preemption enumeration of all schedules of tiny programs; the same generated programs on real threads in a ThreadSanitizer build (data races on the queue / writer state = violation); differential against the synchronous writer; history invariants over the execution trace",
        level_text="Library threads and application threads are real pthreads serialised by a baton; the generated choice vector (or priority schedule with change points) decides who runs at every lock/unlock/wait/signal/sleep, queue operation, half-copied message and backend I/O call, time jumps let sleepers overtake and per-I/O latencies of 6 s/25 s fire the 5 s send and 20 s flush timeouts in virtual time. Checked per run: applied calls == accepted submissions per producer in order (nothing lost, duplicated, reordered; rejected calls leave no trace), file content == synchronous reference (dump + decoder), queue operations only under the queue lock, writer calls only under the process lock, deadlock / no-progress detection. Real-thread part: 4 x 150 (thorough 6 x 3000) programs on genuine pthreads under ThreadSanitizer, reports judged by address, file content == synchronous reference.",
        level_note="Trusted: vsched.cpp (about 500 lines), ThreadSanitizer's happens-before analysis, the synchronous writer as reference (C01-C05). Schedules are sampled; in addition every schedule with at most 2 (thorough: 3) preemptions of five tiny programs is enumerated (three-thread program: 1 / 2), see coverage.exhaustive_subspace in the evidence."),
    "C10": dict(
        engine="rapidcheck + libFuzzer",
        technique="structure-aware API-sequence fuzzing: one decoder from a tape of choices to call sequences over the whole public surface, driven by rapidcheck (shrinking) and by libFuzzer (coverage guidance), ASan/LSan + return-code oracle inside the target",
        level_text="Call sequences over jls_wr_*, jls_twr_* (64 KiB queue), jls_rd_*, jls_copy and jls_raw_* with arbitrary ids, enum values, definition fields, windows, increments and lengths; buffers are exact-size heap blocks. Violations: any sanitizer report (out-of-bounds, use-after-free, leak after all closes, leaked descriptor), fatal signal, I/O-budget overrun/timeout, an invalid call that returns 0, a valid in-range read that is refused, or a rejected writer call that changed the file bytes. 12 rapidcheck workers + 4 libFuzzer workers per run; every failure is replayable as JSON.",
        level_note="Trusted: the decoder's bookkeeping of what is defined (mirrors the documented rules), ASan/LSan. Coverage guidance is approximate w.r.t. the seed; the saved JSON case is the reproducible unit."),
    "C04": dict(
        technique="fault injection: bit/burst/range corruption operators aimed at the CRC regions found by the independent decoder, each altered file judged through the full reader dump against the baseline dump; exhaustive single-bit and <=3-bit header enumerations",
        level_text="Complete: all 2.8 million 1/2/3-bit patterns of a 32-byte header (incl. the CRC field) against jls_crc32c_hdr, and every single-bit flip of every byte of small generated files judged through open + full dump. Sampled: 1-3 bit flips, <=32-bit bursts, multi-region combinations (END chunk, file header), zeroed and randomised ranges on generated multi-track files. Every reader result must be an error, the baseline's value, or - only when the open repaired the file - a prefix of it; an I/O budget turns endless loops into failures.",
        level_note="Trusted: dump comparator, decoder region map, in-memory VFS. Most workers run an -O2 build for throughput, one in four runs ASan."),
    "C02": dict(
        technique="model-based property testing: generated definitions/streams reaching 1-5 summary levels x generated (start, increment, count) requests against exact long-double window statistics with stated tolerances",
        level_text="Streams up to ~350k samples (one case in sixty: > 1 M samples with a level-1 summary chunk beyond 1 MiB) reach up to 5 summary levels; one case in six is left unclosed so that the reader serves summaries it rebuilt during repair; requests use increments around sdf*sumdf^k (x1, x0.999, x1.001, x2.5), counts 1/2/24/25/26/100 and starts aligned or unaligned to entries, blocks and summary chunks, incl. windows ending at the last sample. count=1: min/max exact, mean within tolerance, std within [sqrt((d-1)/d)*sigma, sigma]; count>1: every entry within the extremes of its window widened by one increment, average of means equals the exact range mean; errors inside the signal are violations for <= 32-bit types.",
        level_note="Trusted: long-double two-pass reference and the frozen tolerances (calibrated on the fixed tree over several seeds)."),
    "C15": dict(
        technique="two-run relational (metamorphic) property testing with the independent decoder: same stream with and without omission; model-based reads for <= 8-bit constant-block patterns",
        level_text="For every generated stream the plain and the omit-toggled file are decoded independently: SUMMARY payloads at every level must be byte-identical, INDEX headers identical, level-1 entries 0 only for missing DATA chunks, stored DATA chunks identical, first block stored, reported length equal; reads anchored at stored/omitted block edges at every bit phase must be bit-exact for stored blocks and for automatically omitted constant blocks (u1/u4/u8/i4/i8), and succeed with the right sample count for blocks omitted on request; summary-aligned statistics must be bitwise equal between the runs.",
        level_note="Trusted: decoder.h, sample model. Open finding KF-C15-1 (length rounded down when the last, partial block is omitted on request; pinned by test/fsr_omit_test.c) is matched by predicate."),
    "C19": dict(
        technique="fault injection (write-log replay) + idempotence/read-only invariants over the backend log: open, reopen, reopen; byte and dump equality",
        level_text="Closed files are read by generated read scripts with the backend log on: no write/truncate/RDWR-open may occur and bytes stay identical (also on a real file through the genuine backend, checked by size/mtime/bytes). Crash images that open are checked after the first open with the independent decoder (well-formed closed file) and then opened twice more: no mutating backend operation, identical bytes, identical dump.",
        level_note="Trusted: VFS log, decoder.h, dump comparator. KF-C03-1 (torn in-place rewrite) is matched by predicate for the well-formedness clause."),
    "C03": dict(
        technique="fault injection by exact write-log replay: generated writer programs x enumerated crash points (write boundaries and byte prefixes), each image reopened and compared with the model prefix",
        level_text="For every generated program the backend write log is recorded with API-call markers; for the selected boundaries every image (k complete operations + b bytes of the next; every byte of header-sized writes, sampled bytes of long payloads) is materialised in a fresh in-memory file and opened with jls_rd_open under an I/O budget. Opened images must expose only written definitions, lengths <= what had been submitted, bit-exact sample prefixes, matching statistics, and ordered subsequences of the written annotations/UTC/user data; at clean boundaries with all definitions on disk the open must succeed and lose at most the buffered samples plus one block.",
        level_note="Trusted: VFS log + crash_image(); model. Open findings KF-C03-1 (torn in-place rewrite; judged in C05/C19) and KF-C03-2 (omitted blocks after the last stored summary chunk are lost) are matched by predicate. Hundreds of thousands of images per quick run; boundaries are sampled by stride across cases."),
    "C17": dict(
        technique="differential/round-trip property testing: reader dump of the original vs reader dump of jls_copy's output, plus the independent decoder on the copy",
        level_text="Generated multi-signal files (all types, offsets, omit toggles, annotations incl. signal 0, UTC, user data up to > 1 MiB), closed, unclosed at an API boundary, or cut at a generated point of the backend write log, are copied; the copy must be a conformant closed file and its dump must equal (closed original) or contain (unclosed original) the original's dump: definitions, lengths, every sample, a statistics battery, annotations, UTC entries, user data. Leaks are caught by LeakSanitizer.",
        level_note="Trusted: dump.h comparators, decoder.h. Open finding KF-C17-1 (omitted blocks are not reconstructed by jls_copy) is matched per signal: only signals that have omitted blocks in the original may differ."),
    "C14": dict(
        technique="history invariant over the complete backend write log of generated writer programs (in-memory VFS), evaluated against a shadow file and chunk map",
        level_text="Every logged backend write/truncate of every generated program (sync and threaded writer) is classified online: append, 32-byte header rewrite (only bytes 0..15 and 28..31 may differ, CRC valid), head-table rewrite (each changed entry 0 -> offset of an existing chunk of that track/level, followed by a matching footer), or the file header. Anything else - in particular any rewrite of payload bytes, a truncate, or a hole - is a violation with the offending operation index.",
        level_note="Trusted: the VFS log (every I/O call of backend_posix.c goes through it) and the chunk-map parser (own CRC). Covers the writer only; repair writes are C19."),
    "C05": dict(
        technique="differential testing against an independent decoder written from the specification (explicit byte offsets, own CRC), plus model comparison; generated programs via four production paths",
        level_text="Every generated file (sync writer, threaded writer, jls_copy output, repaired crash image from an exact write-log replay) is walked by a second decoder that shares no code or headers with the library: header/payload CRCs, alignment, zero pad, header length, prev-length chain, link symmetry and list membership, head tables, index trees (kind/signal/level/timestamp of every target), INDEX immediately followed by SUMMARY. Its content (definitions, samples, summaries at every level, annotations, UTC, user data) must equal the model and what the library reader returns.",
        level_note="Trusted: decoder.h (about 400 lines, reviewed against format.h) and the model. Summary values are compared with the C02 tolerances. Sampling of programs; not exhaustive."),
    "C12": dict(
        technique="model-based property testing: generated anchor tables x generated queries against a list model and exact rational interpolation (__int128)",
        level_text="Anchor tables with 0,1,2,3, decimate+-1, decimate^2+1, 999/1000/1001 and 2000 entries (the map's initial capacity and its first growth), rates 1 Hz..1 GHz, drift and irregular spacing, first-sample offsets; jls_rd_utc from many start ids must deliver exactly the pairs at or after the start; id->time is exact at anchors, non-decreasing, within 1 tick of the exact linear inter/extrapolation, and time->id returns within 1 sample.",
        level_note="Trusted: the __int128/long double reference. Spans are bounded (see assumptions)."),
    "C11": dict(
        technique="model-based property testing: generated timestamp multisets (runs of equal timestamps aimed at index-chunk edges) x all seek points against a list model",
        level_text="Generated annotation sequences for the global signal 0 and FSR signals with zero, large and negative first sample ids, decimate factors 2/3/10/default so that 1-3 index levels exist; full iteration compared field by field; for every distinct timestamp, timestamp-1, before-first and after-last the delivered list must be a contiguous tail containing every item >= t and at most one earlier item; stop requests end the iteration.",
        level_note="Trusted: the list model and the tail predicate. Decimate factor 1 is outside the generated domain (C10 covers extreme parameters)."),
    "C13": dict(
        technique="model-based property testing: generated definition/user-data programs incl. invalid and duplicate ids against a record model; rejected operations must leave the VFS bytes unchanged",
        level_text="Generated programs mix valid, duplicate, reserved and out-of-range source/signal ids, undefined sources, invalid types, VSR signals, data ops for undefined or wrong-type signals, strings (absent, empty, UTF-8, up to and beyond the 1 MiB string block) and user data (0 bytes .. 3 MiB, tags up to 0xffff, all storage types). Every verdict is compared with the model, rejected ops are checked byte-for-byte against the file, and the reader's enumeration (id order incl. reserved 0/0, strings, type, rate, decimation factors, user data order/tag/type/size/bytes, stop request) against the record model.",
        level_note="Trusted: the record model. Stored block parameters are only checked for consistency here (C16 decides the normalisation)."),
    "C09": dict(
        technique="model-based property testing: generated gap/overlap write scripts against a model with fill (NaN/0) and keep-first rules; stored summaries observed through aligned statistics requests",
        level_text="Scripts over all 15 data types mixing contiguous writes, gaps (1 sample .. several internal fill buffers) and overlaps (partial/total, every sub-byte phase) placed around block edges; length, every sample (gap samples NaN/0, others bit-exact, overlapping data deliberately different from the stored one) and level-1 summaries of float windows containing gap samples are compared with the model.",
        level_note="Trusted: the model's fill and keep-first rules (taken from writer.h / the property text). Gaps are bounded (<= ~300k samples) to keep files small."),
    "C01": dict(
        technique="model-based property testing: generated writer programs x generated read scripts against an in-memory sample model (bit vectors), exact-size ASan buffers",
        level_text="Generated programs over all 15 data types, definition shapes (minimal, small random, defaults, odd), first sample ids up to +-2^60, contiguous streams cut at block edges and interleaved across 1-4 signals, reaching 1-4 summary levels; read scripts anchored at block boundaries, the last sample and sub-byte phases, interleaved with other reader calls. Length and every window compared bit-for-bit with the model. Sampling; failures shrink to a few ops and are kept as corpus files.",
        level_note="Trusted: the sample model and pattern expander (pure functions); in-memory VFS stands in for the disk. Blocks > 1 MiB are covered by C13/C05 shapes only sparsely."),
    "C16": dict(
        technique="property-based testing through the public API (define, read back, re-define) with relational/metamorphic oracles; complete enumeration of a small grid",
        level_text="Complete for the grid {0,1,9,10,11,16,100,1000}^4 x 15 data types; boundary-biased 32-bit values (2^k, 2^k+-1, near multiples, UINT32_MAX-0..300, random) are sampled. Checked: divisibility relations, minimums, no wrap-around of rounded-up fields, idempotence via re-submission, zero == explicit per-width default, survival (SIGFPE = violation).",
        level_note="Trusted: the pinned per-width default table and the reading of the 256-bit clause for 24-bit types (stated in evidence assumptions). The full 32-bit domain is sampled, not covered."),
    "C08": dict(
        technique="model-based property testing (deque + interval model) on generated alloc/peek/pop sequences, plus complete BFS of the reachable state space for small capacities",
        level_text="BFS enumerates every reachable (library struct, buffer bytes, model queue) state for capacities 8..20 (quick) / 8..28 (thorough) and applies every operation incl. every size 0..cap+1 from each; generated sequences cover capacities up to 64 KiB with sizes within 16 bytes of the capacity and of the remaining space. FIFO order/size/bytes, region inside the exact-size ASan heap buffer, no overlap with unpopped messages, refusal only without size+4 contiguous bytes, success with size+12, cap-12 allocatable after emptying, count.",
        level_note="Trusted: the interval model; ASan for out-of-buffer accesses. Exhaustive only for the listed capacities with 0xff payload bytes."),
    "C18": dict(
        technique="exhaustive enumeration of lengths x alignments + rapidcheck differential (SSE4.2 build vs table build vs bit-serial reference)",
        level_text="Complete for every length 0..4096 x alignment 0..7 x 4 content classes, all 8x256 table words against the polynomial and the check value; beyond that generated lengths up to 16 MiB at alignments 0..63 and random headers (hdr variant == general function over 28 bytes) are sampled. Both the SSE4.2 and the JLS_OPTIMIZE_CRC_DISABLE build are compiled from the working tree into one process.",
        level_note="Trusted: the 6-line bit-serial reference. Not covered: ARM NEON path (not compilable here). Exact-size heap buffers under ASan catch over-reads."),
    "C20": dict(
        technique="property-based testing (rapidcheck tape) against a long-double two-pass reference; algebraic laws (identity, aliasing) checked bitwise",
        level_text="Generated sequences (explicit small ones and seven patterns up to 10^4 samples over 200 decades), split points, per-part accumulation method, combine order and aliasing; k/min/max exact, mean and S within a stated rounding bound of a long-double reference, variance >= 0, identity and aliasing bit-exact. Sampling, not proof; failures shrink to a few explicit values.",
        level_note="Trusted: the long-double reference and the stated error bounds (frozen after calibration on the unchanged tree); ASan for memory errors."),
}

_ALL = ["C%02d" % k for k in range(1, 21)]
NOT_APPLICABLE = [dict(property_id=p, reason="check not built yet in this revision of /verif (work in progress; the technique applies)")
                  for p in _ALL if p not in PROPS or PROPS[p].get("unclaimed")]
