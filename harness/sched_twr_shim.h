/* Force-included in front of src/threaded_writer.c in the `sched` builds: the queue operations,
 * the payload memcpy and every synchronous-writer call made by the threaded writer go through
 * wrappers that are scheduling points and record who did what under which lock. */
#ifndef VERIF_SCHED_TWR_SHIM_H
#define VERIF_SCHED_TWR_SHIM_H
#include <string.h>
#include <stdint.h>
#include "jls/msg_ring_buffer.h"
#include "jls/writer.h"
#ifdef __cplusplus
extern "C" {
#endif
uint8_t * vs_mrb_alloc(struct jls_mrb_s * self, uint32_t size);
uint8_t * vs_mrb_peek(struct jls_mrb_s * self, uint32_t * size);
uint8_t * vs_mrb_pop(struct jls_mrb_s * self, uint32_t * size);
void * vs_memcpy(void * dst, const void * src, size_t n);
int32_t vs_wr_fsr(struct jls_wr_s * self, uint16_t signal_id, int64_t sample_id, const void * data, uint32_t data_length);
int32_t vs_wr_fsr_omit_data(struct jls_wr_s * self, uint16_t signal_id, uint32_t enable);
int32_t vs_wr_annotation(struct jls_wr_s * self, uint16_t signal_id, int64_t timestamp, float y, enum jls_annotation_type_e annotation_type,
                         uint8_t group_id, enum jls_storage_type_e storage_type, const uint8_t * data, uint32_t data_size);
int32_t vs_wr_utc(struct jls_wr_s * self, uint16_t signal_id, int64_t sample_id, int64_t utc);
int32_t vs_wr_user_data(struct jls_wr_s * self, uint16_t chunk_meta, enum jls_storage_type_e storage_type, const uint8_t * data, uint32_t data_size);
int32_t vs_wr_flush(struct jls_wr_s * self);
int32_t vs_wr_close(struct jls_wr_s * self);
#ifdef __cplusplus
}
#endif
#ifndef VERIF_SCHED_IMPL
#define jls_mrb_alloc vs_mrb_alloc
#define jls_mrb_peek vs_mrb_peek
#define jls_mrb_pop vs_mrb_pop
#define memcpy vs_memcpy
#define jls_wr_fsr vs_wr_fsr
#define jls_wr_fsr_omit_data vs_wr_fsr_omit_data
#define jls_wr_annotation vs_wr_annotation
#define jls_wr_utc vs_wr_utc
#define jls_wr_user_data vs_wr_user_data
#define jls_wr_flush vs_wr_flush
#define jls_wr_close vs_wr_close
#endif
#endif
