// Interface between the generic engines (rapidcheck driver rc_main.cpp, libFuzzer driver
// fuzz_main.cpp, replay) and one property's generator + oracle.
//
// All randomness of a case comes from the Tape, which the engine fills from the library's
// generator (rapidcheck: a shrinkable vector<uint32_t>; libFuzzer: the input bytes).  An
// exhausted tape yields 0, and 0 always selects the simplest alternative, so shrinking the tape
// towards zeros / shorter length shrinks the case structurally.
#pragma once
#include <cstdint>
#include <string>
#include <vector>

struct Tape {
    const uint32_t * v;
    size_t n;
    size_t pos = 0;
    Tape(const uint32_t * v_, size_t n_) : v(v_), n(n_) {}
    uint32_t raw() { return (pos < n) ? v[pos++] : 0; }
    bool exhausted() const { return pos >= n; }
    // uniform-ish integer in [0, k)
    uint32_t below(uint32_t k) { return k ? raw() % k : 0; }
    // integer in [lo, hi] inclusive
    int64_t range(int64_t lo, int64_t hi) {
        if (hi <= lo) return lo;
        uint64_t span = (uint64_t) (hi - lo) + 1;
        uint64_t r = raw();
        if (span > 0xffffffffULL) r = (r << 32) | raw();
        return lo + (int64_t) (r % span);
    }
    bool coin() { return raw() & 1; }
    // true with probability ~ num/den; 0 on the tape => false
    bool chance(uint32_t num, uint32_t den) { return (raw() % den) >= (den - num) ; }
    uint64_t u64() { uint64_t a = raw(); return (a << 32) | raw(); }
    // pick an index with weights; index 0 is the "simplest"
    size_t weighted(const std::vector<uint32_t> & w) {
        uint32_t tot = 0;
        for (auto x : w) tot += x;
        uint32_t r = below(tot);
        for (size_t k = 0; k < w.size(); ++k) { if (r < w[k]) return k; r -= w[k]; }
        return 0;
    }
    template <class T> const T & pick(const std::vector<T> & c) { return c[below((uint32_t) c.size())]; }
};

struct CaseOutcome {
    bool ok = true;
    bool nontrivial = false;
    std::string clause;              // which clause of the property failed
    std::string detail;              // human-readable detail
    std::string known;               // non-empty: failure is explained by this open known finding
    std::vector<std::string> tags;   // class labels for the distribution histogram
    std::vector<std::pair<std::string, long>> counters;   // additive counters (e.g. crash images examined)
    void fail(const std::string & c, const std::string & d) { if (ok) { ok = false; clause = c; detail = d; } }
};

// Implemented by each property TU -------------------------------------------------------------
const char * prop_id();
const char * prop_rule();                                   // how cases are generated + what is non-trivial
std::string prop_generate(Tape & t, int size);              // -> case JSON text (size 0..100)
CaseOutcome prop_execute(const std::string & case_json);    // pure function of the case and the code
// Optional complete enumeration of a finite sub-space (weak default: not provided).
// Returns JSON text {"evaluations":..,"distinct_nontrivial":..,"exhaustive":true,"bound":"..","violations":[...]}
std::string prop_enumerate(const std::string & tier, const std::string & outdir) __attribute__((weak));
