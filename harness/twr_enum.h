// Bounded-preemption enumeration of schedules for tiny threaded-writer programs (C06, C07; DESIGN.md 2.8).
//
// A schedule prefix is the list of indices chosen at the scheduling points that consume a choice.  Beyond the prefix the
// scheduler keeps the running thread running while it can (never a preemption) and otherwise takes the lowest enabled id.
// explore(): stateless depth-first search.  Every run reports its decision points (sched::decisions()); for every point
// behind the prefix and every alternative thread that was enabled there, the alternative is pushed as a new prefix if the
// number of preemptions (switching away from a thread that could have continued) stays <= K.  Switching when the running
// thread is blocked is free, so for two virtual threads this is exactly "all schedules with at most K preemptions".
// Time jumps (a sleeper overtaking runnable threads) are not enumerated here; the sampled schedules cover them.
//
// The work is spread over forked worker processes (no other thread exists between two runs, so fork is safe); a worker that
// dies (scheduler verdict = abort, sanitizer report) leaves its current case behind, which the parent hands to the driver.
#pragma once
#include "twr_common.h"
#include <sys/wait.h>
#include <unistd.h>
#include <signal.h>
#include <time.h>

namespace twr_enum {

struct Prefix { std::vector<uint16_t> choices; int preemptions = 0; };

inline Op mk_fsr(int sig, int64_t id, uint32_t n, const char * kind, uint64_t seed, int64_t poff) {
    Op o; o.op = "fsr"; o.sig = sig; o.sample_id = id; o.n = n; o.pat.kind = kind; o.pat.seed = seed << 1; o.poff = poff; return o;
}
inline Op mk_flush(int sig = 0) { Op o; o.op = "flush"; o.sig = sig; return o; }

// The tiny programs.  Queue capacity is TWR_QUEUE_BYTES (1 KiB): message sizes are chosen so that the queue wraps, fills,
// and (with drop-on-overflow) overflows within three or four messages.
inline std::vector<std::pair<std::string, TwrCase>> programs(bool with_flushes) {
    std::vector<std::pair<std::string, TwrCase>> out;
    uint32_t zero_tape[1] = {0};
    auto base = [&](const char * dtype, int nsig) {
        TwrCase c; c.prog.via = "twr";
        Tape t(zero_tape, 0);
        c.prog.ops.push_back(gen_source(t, 1));
        for (int s = 1; s <= nsig; ++s) { Tape t2(zero_tape, 0); c.prog.ops.push_back(gen_signal(t2, s, 1, *dtype_by_name(dtype), DEF_MINIMAL)); }
        return c;
    };
    {   // P1: three 400-byte messages: the third wraps around the end of the 1 KiB queue
        TwrCase c = base("u8", 1);
        c.prog.ops.push_back(mk_fsr(1, 0, 400, "ramp", 1, 0));
        c.prog.ops.push_back(mk_fsr(1, 400, 400, "ramp", 1, 400));
        if (with_flushes) c.prog.ops.push_back(mk_flush());
        c.prog.ops.push_back(mk_fsr(1, 800, 400, "ramp", 1, 800));
        out.push_back({"P1 u8 3x400B (wrap)", c});
    }
    {   // P2: mixed message kinds, then a message that needs the wrap
        TwrCase c = base("f32", 1);
        c.prog.ops.push_back(mk_fsr(1, 0, 100, "random", 2, 0));
        { Op a; a.op = "anno"; a.sig = 1; a.ts = 5; a.y = 1.0f; a.atype = 0; a.group = 0; a.stor = 2; a.data.lit = {'h', 'i'}; c.prog.ops.push_back(a); }
        { Op u; u.op = "utc"; u.sig = 1; u.sample_id = 10; u.utc = 123456; c.prog.ops.push_back(u); }
        { Op u; u.op = "user"; u.meta = 0x123; u.stor = 1; u.data.lit = {1, 2, 3}; c.prog.ops.push_back(u); }
        if (with_flushes) c.prog.ops.push_back(mk_flush());
        c.prog.ops.push_back(mk_fsr(1, 100, 150, "random", 2, 100));
        out.push_back({"P2 f32 mixed kinds", c});
    }
    {   // P3: two application threads, one signal each
        TwrCase c = base("u16", 2);
        c.second_sig = 2;
        c.prog.ops.push_back(mk_fsr(1, 0, 150, "ramp", 3, 0));
        c.prog.ops.push_back(mk_fsr(2, 0, 150, "ramp", 4, 0));
        if (with_flushes) { c.prog.ops.push_back(mk_flush(0)); c.prog.ops.push_back(mk_flush(2)); }
        c.prog.ops.push_back(mk_fsr(1, 150, 150, "ramp", 3, 150));
        c.prog.ops.push_back(mk_fsr(2, 150, 150, "ramp", 4, 150));
        out.push_back({"P3 two producers", c});
    }
    {   // P4: drop-on-overflow with messages that fill the queue
        TwrCase c = base("u8", 1);
        c.drop = true;
        c.prog.ops.push_back(mk_fsr(1, 0, 900, "ramp", 5, 0));
        c.prog.ops.push_back(mk_fsr(1, 900, 900, "ramp", 5, 900));
        c.prog.ops.push_back(mk_fsr(1, 1800, 10, "ramp", 5, 1800));
        if (with_flushes) c.prog.ops.push_back(mk_flush());
        out.push_back({"P4 drop-on-overflow", c});
    }
    {   // P5: queue full without drop: the producer sleeps and retries
        TwrCase c = base("u8", 1);
        c.prog.ops.push_back(mk_fsr(1, 0, 900, "ramp", 6, 0));
        c.prog.ops.push_back(mk_fsr(1, 900, 900, "ramp", 6, 900));
        if (with_flushes) c.prog.ops.push_back(mk_flush());
        out.push_back({"P5 full queue, retry", c});
    }
    if (with_flushes) {   // P6: flush on an empty writer, sub-byte data, flush right before close
        TwrCase c = base("u4", 1);
        c.prog.ops.insert(c.prog.ops.begin() + 2, mk_flush());
        c.prog.ops.push_back(mk_fsr(1, 0, 33, "random", 7, 0));
        c.prog.ops.push_back(mk_flush());
        c.prog.ops.push_back(mk_fsr(1, 33, 31, "random", 7, 33));
        c.prog.ops.push_back(mk_flush());
        out.push_back({"P6 flush first/last", c});
    }
    return out;
}

struct Result { long runs = 0, nontrivial = 0, max_decisions = 0; bool capped = false; bool failed = false; std::string clause, detail, case_json; };

// explores the subtree under the given start prefixes; returns after the first failure
inline Result explore(const TwrCase & base, std::vector<Prefix> stack, int K, long cap, const std::string & cur_path, time_t deadline) {
    Result r;
    while (!stack.empty()) {
        // the wall-clock budget only limits how much is explored (reported as "complete": false), it never decides a verdict
        if (r.runs >= cap || time(nullptr) > deadline) { r.capped = true; break; }
        Prefix p = stack.back(); stack.pop_back();
        TwrCase c = base;
        c.sch.choices.assign(p.choices.begin(), p.choices.end());
        std::string js = mj::dump(twr_case_json(c));
        { mj::Value doc = mj::Value::object(); doc.set("property", prop_id()); doc.set("clause", "crash"); doc.set("case", mj::parse(js)); mj::write_file(cur_path, mj::dump(doc)); }
        CaseOutcome oc = prop_execute(js);
        ++r.runs;
        if (oc.nontrivial) ++r.nontrivial;
        if (!oc.ok && oc.known.empty()) { r.failed = true; r.clause = oc.clause; r.detail = oc.detail; r.case_json = js; break; }
        const std::vector<sched::Decision> D = sched::decisions();
        if ((long) D.size() > r.max_decisions) r.max_decisions = (long) D.size();
        for (size_t i = p.choices.size(); i < D.size(); ++i) {
            const sched::Decision & d = D[i];
            if (d.n_enabled < 2 || d.chosen == 0xffff) continue;
            for (uint16_t alt = 0; alt < d.n_enabled; ++alt) {
                if (alt == d.chosen) continue;
                int cost = (d.cur_index >= 0 && (int) alt != d.cur_index) ? 1 : 0;
                if (p.preemptions + cost > K) continue;
                Prefix q; q.preemptions = p.preemptions + cost;
                q.choices.reserve(i + 1);
                for (size_t j = 0; j < i; ++j) q.choices.push_back(D[j].chosen == 0xffff ? 0 : D[j].chosen);
                q.choices.push_back(alt);
                stack.push_back(std::move(q));
            }
        }
    }
    return r;
}

// Full enumeration for one program, spread over `nproc` forked workers.  Returns aggregated result.
inline Result enumerate_program(const TwrCase & base, int K, long cap, int nproc, const std::string & outdir, int prog_index, time_t deadline) {
    // root run in this process: collect the first level of alternatives
    Result root;
    std::vector<Prefix> first;
    {
        std::vector<Prefix> st{Prefix{}};
        // run only the root: cap = 1, then recompute its children
        TwrCase c = base; c.sch.choices.clear();
        std::string js = mj::dump(twr_case_json(c));
        { mj::Value doc = mj::Value::object(); doc.set("property", prop_id()); doc.set("clause", "crash"); doc.set("case", mj::parse(js)); mj::write_file(outdir + "/current_case.json", mj::dump(doc)); }
        CaseOutcome oc = prop_execute(js);
        root.runs = 1; if (oc.nontrivial) root.nontrivial = 1;
        if (!oc.ok && oc.known.empty()) { root.failed = true; root.clause = oc.clause; root.detail = oc.detail; root.case_json = js; return root; }
        const std::vector<sched::Decision> D = sched::decisions();
        root.max_decisions = (long) D.size();
        for (size_t i = 0; i < D.size(); ++i) {
            const sched::Decision & d = D[i];
            if (d.n_enabled < 2 || d.chosen == 0xffff) continue;
            for (uint16_t alt = 0; alt < d.n_enabled; ++alt) {
                if (alt == d.chosen) continue;
                int cost = (d.cur_index >= 0 && (int) alt != d.cur_index) ? 1 : 0;
                if (cost > K) continue;
                Prefix q; q.preemptions = cost;
                for (size_t j = 0; j < i; ++j) q.choices.push_back(D[j].chosen == 0xffff ? 0 : D[j].chosen);
                q.choices.push_back(alt);
                first.push_back(std::move(q));
            }
        }
    }
    if (first.empty()) return root;
    if (nproc > (int) first.size()) nproc = (int) first.size();
    std::vector<pid_t> kids;
    for (int w = 0; w < nproc; ++w) {
        fflush(nullptr);
        pid_t pid = fork();
        if (pid == 0) {
            std::vector<Prefix> mine;
            for (size_t k = (size_t) w; k < first.size(); k += (size_t) nproc) mine.push_back(first[k]);
            std::string cur = outdir + strf("/enum_p%d_w%d_current.json", prog_index, w);
            Result r = explore(base, mine, K, cap / nproc + 1, cur, deadline);
            mj::Value v = mj::Value::object();
            v.set("runs", (long long) r.runs); v.set("nontrivial", (long long) r.nontrivial); v.set("max_decisions", (long long) r.max_decisions);
            v.set("capped", r.capped); v.set("failed", r.failed); v.set("clause", r.clause); v.set("detail", r.detail);
            if (r.failed) v.set("case", mj::parse(r.case_json));
            mj::write_file(outdir + strf("/enum_p%d_w%d.json", prog_index, w), mj::dump(v));
            ::remove(cur.c_str());
            fflush(nullptr);
            _exit(0);
        }
        kids.push_back(pid);
    }
    Result agg = root;
    for (int w = 0; w < nproc; ++w) {
        int st = 0;
        waitpid(kids[(size_t) w], &st, 0);
        std::string rp = outdir + strf("/enum_p%d_w%d.json", prog_index, w);
        std::string cur = outdir + strf("/enum_p%d_w%d_current.json", prog_index, w);
        if (!(WIFEXITED(st) && WEXITSTATUS(st) == 0)) {
            // the worker died inside a run (scheduler verdict, sanitizer): hand its case to the driver as the current case and die too
            std::string doc;
            if (mj::read_file(cur, doc) && !doc.empty()) mj::write_file(outdir + "/current_case.json", doc);
            fprintf(stderr, "enumeration worker %d of program %d died (status 0x%x)\n", w, prog_index, st);
            fflush(nullptr);
            for (int w2 = w + 1; w2 < nproc; ++w2) { int s2; kill(kids[(size_t) w2], SIGKILL); waitpid(kids[(size_t) w2], &s2, 0); }
            abort();
        }
        std::string rtxt; mj::read_file(rp, rtxt);
        mj::Value v = mj::parse(rtxt);
        agg.runs += v.get_int("runs", 0); agg.nontrivial += v.get_int("nontrivial", 0);
        if (v.get_int("max_decisions", 0) > agg.max_decisions) agg.max_decisions = v.get_int("max_decisions", 0);
        if (v.at("capped").as_bool()) agg.capped = true;
        if (v.at("failed").as_bool() && !agg.failed) { agg.failed = true; agg.clause = v.get_str("clause", ""); agg.detail = v.get_str("detail", ""); agg.case_json = mj::dump(v.at("case")); }
        ::remove(rp.c_str());
    }
    return agg;
}

// prop_enumerate body shared by C06 and C07
inline std::string run(const std::string & tier, const std::string & outdir, bool with_flushes) {
    bool thorough = tier == "thorough";
    auto progs = programs(with_flushes);
    mj::Value res = mj::Value::object();
    mj::Value viol = mj::Value::array();
    mj::Value per = mj::Value::array();
    long long evals = 0, nt = 0;
    bool all_exhaustive = true;
    int idx = 0;
    time_t t_start = time(nullptr);
    long budget_s = thorough ? 1200 : 100;
    for (auto & kv : progs) {
        // every program gets an equal share of what is left of the budget
        time_t now = time(nullptr);
        long left = budget_s - (long) (now - t_start);
        if (left < 5) left = 5;
        time_t deadline = now + left / (long) (progs.size() - (size_t) idx);
        // quick: K = 2 (three virtual threads: K = 1); thorough: K = 3 (three virtual threads: K = 2)
        bool three_threads = kv.second.second_sig >= 0;
        int K = (thorough ? 3 : 2) - (three_threads ? 1 : 0);
        long cap = thorough ? 3000000 : 100000;
        Result r = enumerate_program(kv.second, K, cap, 14, outdir, idx, deadline);
        evals += r.runs; nt += r.nontrivial;
        if (r.capped) all_exhaustive = false;
        mj::Value p = mj::Value::object();
        p.set("program", kv.first); p.set("preemption_bound", K); p.set("schedules", (long long) r.runs); p.set("decision_points_max", (long long) r.max_decisions);
        p.set("complete", !r.capped);
        per.push(p);
        if (r.failed) {
            mj::Value v = mj::Value::object(); v.set("clause", r.clause); v.set("detail", kv.first + ": " + r.detail); v.set("case", mj::parse(r.case_json));
            viol.push(v);
            break;
        }
        ++idx;
    }
    ::remove((outdir + "/current_case.json").c_str());
    res.set("evaluations", evals);
    res.set("distinct_nontrivial", nt);
    res.set("exhaustive", all_exhaustive);
    res.set("wall_budget_s", (long long) budget_s);
    res.set("bound", "every schedule with at most K preemptions (switching away from a thread that could continue; switches at blocking points are free) of each listed tiny program, scheduling points as in the sampled runs, no time jumps; per program: see programs");
    res.set("programs", per);
    res.set("violations", viol);
    mj::Value smp = mj::Value::array();
    if (!progs.empty()) smp.push(twr_case_json(progs[0].second));
    res.set("samples", smp);
    vfs::reset();
    return mj::dump(res);
}

}  // namespace twr_enum
