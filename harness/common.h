// Small shared helpers (no jls dependency).
#pragma once
#include <cstdint>
#include <cstring>
#include <cmath>
#include <string>
#include <vector>
#include <cstdio>
#include <cstdarg>
#include <algorithm>

// Deterministic bulk-data expander.  NOT a source of test randomness: its seed is a value
// taken from the tape, so a case is still a pure function of the tape.
struct SplitMix {
    uint64_t s;
    explicit SplitMix(uint64_t seed) : s(seed) {}
    uint64_t next() {
        uint64_t z = (s += 0x9e3779b97f4a7c15ULL);
        z = (z ^ (z >> 30)) * 0xbf58476d1ce4e5b9ULL;
        z = (z ^ (z >> 27)) * 0x94d049bb133111ebULL;
        return z ^ (z >> 31);
    }
    double unit() { return (double) (next() >> 11) * (1.0 / 9007199254740992.0); }  // [0,1)
};

// stateless hash of (seed, index) -> 64 bits, so that sample k of a pattern does not depend
// on how the stream is cut into calls
static inline uint64_t mix64(uint64_t seed, uint64_t idx) {
    uint64_t z = seed * 0x9e3779b97f4a7c15ULL + idx * 0xd1342543de82ef95ULL + 0x2545f4914f6cdd1dULL;
    z = (z ^ (z >> 30)) * 0xbf58476d1ce4e5b9ULL;
    z = (z ^ (z >> 27)) * 0x94d049bb133111ebULL;
    return z ^ (z >> 31);
}

static inline std::string strf(const char * fmt, ...) __attribute__((format(printf, 1, 2)));
static inline std::string strf(const char * fmt, ...) {
    char buf[2048];
    va_list ap;
    va_start(ap, fmt);
    vsnprintf(buf, sizeof(buf), fmt, ap);
    va_end(ap);
    return std::string(buf);
}

static inline uint64_t dbl_bits(double d) { uint64_t u; memcpy(&u, &d, 8); return u; }
static inline uint32_t flt_bits(float d) { uint32_t u; memcpy(&u, &d, 4); return u; }
