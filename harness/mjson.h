// Minimal JSON value: parse + dump.  Integers are kept exact (int64 / uint64), doubles
// are printed with %.17g.  No dependencies beyond the C++ standard library.
#pragma once
#include <cstdint>
#include <cstdio>
#include <cstdlib>
#include <cstring>
#include <cmath>
#include <map>
#include <memory>
#include <stdexcept>
#include <string>
#include <utility>
#include <vector>

namespace mj {

struct Value;
typedef std::vector<std::pair<std::string, Value>> Members;

struct Value {
    enum Kind { Null, Bool, Int, Dbl, Str, Arr, Obj } kind = Null;
    bool b = false;
    int64_t i = 0;
    double d = 0.0;
    std::string s;
    std::vector<Value> a;
    Members o;

    Value() {}
    Value(bool v) : kind(Bool), b(v) {}
    Value(int v) : kind(Int), i(v) {}
    Value(unsigned v) : kind(Int), i(v) {}
    Value(long v) : kind(Int), i(v) {}
    Value(long long v) : kind(Int), i(v) {}
    Value(unsigned long v) : kind(Int), i((int64_t) v) {}
    Value(unsigned long long v) : kind(Int), i((int64_t) v) {}
    Value(double v) : kind(Dbl), d(v) {}
    Value(const char * v) : kind(Str), s(v) {}
    Value(const std::string & v) : kind(Str), s(v) {}

    static Value array() { Value v; v.kind = Arr; return v; }
    static Value object() { Value v; v.kind = Obj; return v; }

    bool is_null() const { return kind == Null; }
    bool has(const std::string & k) const {
        for (auto & m : o) if (m.first == k) return true;
        return false;
    }
    const Value & at(const std::string & k) const {
        for (auto & m : o) if (m.first == k) return m.second;
        throw std::runtime_error("mjson: missing key " + k);
    }
    const Value * find(const std::string & k) const {
        for (auto & m : o) if (m.first == k) return &m.second;
        return nullptr;
    }
    Value & set(const std::string & k, const Value & v) {
        if (kind != Obj) { kind = Obj; }
        for (auto & m : o) if (m.first == k) { m.second = v; return m.second; }
        o.emplace_back(k, v);
        return o.back().second;
    }
    Value & push(const Value & v) {
        if (kind != Arr) { kind = Arr; }
        a.push_back(v);
        return a.back();
    }
    int64_t as_int() const {
        if (kind == Int) return i;
        if (kind == Dbl) return (int64_t) d;
        if (kind == Bool) return b ? 1 : 0;
        throw std::runtime_error("mjson: not an int");
    }
    double as_dbl() const {
        if (kind == Dbl) return d;
        if (kind == Int) return (double) i;
        if (kind == Str) {  // "nan", "inf", "-inf", or hex-float text
            if (s == "nan") return NAN;
            if (s == "inf") return INFINITY;
            if (s == "-inf") return -INFINITY;
            return strtod(s.c_str(), nullptr);
        }
        throw std::runtime_error("mjson: not a number");
    }
    bool as_bool() const {
        if (kind == Bool) return b;
        if (kind == Int) return i != 0;
        throw std::runtime_error("mjson: not a bool");
    }
    const std::string & as_str() const {
        if (kind != Str) throw std::runtime_error("mjson: not a string");
        return s;
    }
    int64_t get_int(const std::string & k, int64_t dflt) const {
        const Value * v = find(k);
        return (v && !v->is_null()) ? v->as_int() : dflt;
    }
    std::string get_str(const std::string & k, const std::string & dflt) const {
        const Value * v = find(k);
        return (v && v->kind == Str) ? v->s : dflt;
    }
};

inline Value dbl(double v) {  // JSON has no NaN/Inf: encode as strings
    if (std::isnan(v)) return Value("nan");
    if (std::isinf(v)) return Value(v > 0 ? "inf" : "-inf");
    return Value(v);
}

inline void dump_str(const std::string & s, std::string & out) {
    out.push_back('"');
    for (unsigned char c : s) {
        switch (c) {
            case '"': out += "\\\""; break;
            case '\\': out += "\\\\"; break;
            case '\n': out += "\\n"; break;
            case '\r': out += "\\r"; break;
            case '\t': out += "\\t"; break;
            default:
                if (c < 0x20 || c >= 0x7f) {
                    char buf[8];
                    snprintf(buf, sizeof(buf), "\\u%04x", (unsigned) c);  // bytes as latin-1 code points
                    out += buf;
                } else {
                    out.push_back((char) c);
                }
        }
    }
    out.push_back('"');
}

inline void dump(const Value & v, std::string & out) {
    char buf[64];
    switch (v.kind) {
        case Value::Null: out += "null"; break;
        case Value::Bool: out += v.b ? "true" : "false"; break;
        case Value::Int: snprintf(buf, sizeof(buf), "%lld", (long long) v.i); out += buf; break;
        case Value::Dbl:
            if (std::isnan(v.d)) { out += "\"nan\""; }
            else if (std::isinf(v.d)) { out += v.d > 0 ? "\"inf\"" : "\"-inf\""; }
            else {
                snprintf(buf, sizeof(buf), "%.17g", v.d);
                out += buf;
                if (!strpbrk(buf, ".eEn")) out += ".0";
            }
            break;
        case Value::Str: dump_str(v.s, out); break;
        case Value::Arr:
            out.push_back('[');
            for (size_t k = 0; k < v.a.size(); ++k) {
                if (k) out.push_back(',');
                dump(v.a[k], out);
            }
            out.push_back(']');
            break;
        case Value::Obj:
            out.push_back('{');
            for (size_t k = 0; k < v.o.size(); ++k) {
                if (k) out.push_back(',');
                dump_str(v.o[k].first, out);
                out.push_back(':');
                dump(v.o[k].second, out);
            }
            out.push_back('}');
            break;
    }
}

inline std::string dump(const Value & v) {
    std::string s;
    dump(v, s);
    return s;
}

struct Parser {
    const char * p;
    const char * end;
    explicit Parser(const std::string & s) : p(s.data()), end(s.data() + s.size()) {}
    void ws() { while (p < end && (*p == ' ' || *p == '\n' || *p == '\t' || *p == '\r')) ++p; }
    [[noreturn]] void fail(const char * m) { throw std::runtime_error(std::string("mjson parse: ") + m); }
    Value parse() {
        ws();
        if (p >= end) fail("eof");
        char c = *p;
        if (c == '{') {
            ++p;
            Value v = Value::object();
            ws();
            if (p < end && *p == '}') { ++p; return v; }
            while (true) {
                ws();
                Value k = parse();
                if (k.kind != Value::Str) fail("key");
                ws();
                if (p >= end || *p != ':') fail("colon");
                ++p;
                Value x = parse();
                v.o.emplace_back(k.s, std::move(x));
                ws();
                if (p < end && *p == ',') { ++p; continue; }
                if (p < end && *p == '}') { ++p; break; }
                fail("object");
            }
            return v;
        } else if (c == '[') {
            ++p;
            Value v = Value::array();
            ws();
            if (p < end && *p == ']') { ++p; return v; }
            while (true) {
                v.a.push_back(parse());
                ws();
                if (p < end && *p == ',') { ++p; continue; }
                if (p < end && *p == ']') { ++p; break; }
                fail("array");
            }
            return v;
        } else if (c == '"') {
            ++p;
            Value v("");
            while (p < end && *p != '"') {
                if (*p == '\\') {
                    ++p;
                    if (p >= end) fail("escape");
                    switch (*p) {
                        case 'n': v.s.push_back('\n'); break;
                        case 'r': v.s.push_back('\r'); break;
                        case 't': v.s.push_back('\t'); break;
                        case 'b': v.s.push_back('\b'); break;
                        case 'f': v.s.push_back('\f'); break;
                        case 'u': {
                            if (end - p < 5) fail("u-escape");
                            char hex[5] = {p[1], p[2], p[3], p[4], 0};
                            unsigned cp = (unsigned) strtoul(hex, nullptr, 16);
                            v.s.push_back((char) (cp & 0xff));  // latin-1 byte convention (see dump_str)
                            p += 4;
                            break;
                        }
                        default: v.s.push_back(*p);
                    }
                    ++p;
                } else {
                    v.s.push_back(*p++);
                }
            }
            if (p >= end) fail("string");
            ++p;
            return v;
        } else if (c == 't' && end - p >= 4 && !strncmp(p, "true", 4)) { p += 4; return Value(true); }
        else if (c == 'f' && end - p >= 5 && !strncmp(p, "false", 5)) { p += 5; return Value(false); }
        else if (c == 'n' && end - p >= 4 && !strncmp(p, "null", 4)) { p += 4; return Value(); }
        else {
            const char * q = p;
            bool isd = false;
            if (q < end && (*q == '-' || *q == '+')) ++q;
            while (q < end && (isdigit((unsigned char) *q) || *q == '.' || *q == 'e' || *q == 'E' || *q == '-' || *q == '+')) {
                if (*q == '.' || *q == 'e' || *q == 'E') isd = true;
                ++q;
            }
            if (q == p) fail("value");
            std::string t(p, q);
            p = q;
            if (isd) return Value(strtod(t.c_str(), nullptr));
            if (t[0] == '-') return Value((long long) strtoll(t.c_str(), nullptr, 10));
            unsigned long long u = strtoull(t.c_str(), nullptr, 10);
            return Value((long long) u);
        }
    }
};

inline Value parse(const std::string & s) {
    Parser p(s);
    return p.parse();
}

inline std::string hex(const uint8_t * d, size_t n) {
    static const char * H = "0123456789abcdef";
    std::string s;
    s.reserve(n * 2);
    for (size_t k = 0; k < n; ++k) { s.push_back(H[d[k] >> 4]); s.push_back(H[d[k] & 15]); }
    return s;
}

inline std::vector<uint8_t> unhex(const std::string & s) {
    std::vector<uint8_t> v;
    auto nib = [](char c) -> int { return (c >= '0' && c <= '9') ? c - '0' : (c >= 'a' && c <= 'f') ? c - 'a' + 10 : (c >= 'A' && c <= 'F') ? c - 'A' + 10 : 0; };
    for (size_t k = 0; k + 1 < s.size(); k += 2) v.push_back((uint8_t) ((nib(s[k]) << 4) | nib(s[k + 1])));
    return v;
}

inline bool read_file(const std::string & path, std::string & out) {
    FILE * f = fopen(path.c_str(), "rb");
    if (!f) return false;
    char buf[65536];
    size_t n;
    out.clear();
    while ((n = fread(buf, 1, sizeof(buf), f)) > 0) out.append(buf, n);
    fclose(f);
    return true;
}

inline bool write_file(const std::string & path, const std::string & data) {
    std::string tmp = path + ".tmp";
    FILE * f = fopen(tmp.c_str(), "wb");
    if (!f) return false;
    fwrite(data.data(), 1, data.size(), f);
    fclose(f);
    return rename(tmp.c_str(), path.c_str()) == 0;
}

}  // namespace mj
