// Shared helpers on top of the public jls API: data-type table, bit vectors, sample patterns.
#pragma once
#include <cstdint>
#include <cstring>
#include <cmath>
#include <string>
#include <vector>
#include "common.h"
extern "C" {
#include "jls/format.h"
#include "jls/ec.h"
#include "jls/writer.h"
#include "jls/reader.h"
}

struct DType {
    const char * name;
    uint32_t code;
    int bits;
    char kind;  // 'u' unsigned, 'i' signed, 'f' float
};

static const DType DTYPES[] = {
    {"f32", JLS_DATATYPE_F32, 32, 'f'}, {"u8", JLS_DATATYPE_U8, 8, 'u'}, {"u1", JLS_DATATYPE_U1, 1, 'u'},
    {"u4", JLS_DATATYPE_U4, 4, 'u'}, {"i16", JLS_DATATYPE_I16, 16, 'i'}, {"f64", JLS_DATATYPE_F64, 64, 'f'},
    {"u16", JLS_DATATYPE_U16, 16, 'u'}, {"u32", JLS_DATATYPE_U32, 32, 'u'}, {"i32", JLS_DATATYPE_I32, 32, 'i'},
    {"i8", JLS_DATATYPE_I8, 8, 'i'}, {"i4", JLS_DATATYPE_I4, 4, 'i'}, {"u64", JLS_DATATYPE_U64, 64, 'u'},
    {"i64", JLS_DATATYPE_I64, 64, 'i'}, {"u24", JLS_DATATYPE_U24, 24, 'u'}, {"i24", JLS_DATATYPE_I24, 24, 'i'},
};
static const int N_DTYPES = 15;

static inline const DType * dtype_by_name(const std::string & n) {
    for (int k = 0; k < N_DTYPES; ++k) if (n == DTYPES[k].name) return &DTYPES[k];
    return nullptr;
}

// per-width defaults pinned from the commit under test (core.c SIGNAL_*_DEFAULTS)
struct DefDefaults { uint32_t spd, sdf, eps, sumdf; };
static inline bool width_defaults(int bits, DefDefaults & d) {
    switch (bits) {
        case 1: case 4: d = {65536, 1024, 1280, 20}; return true;
        case 8: d = {32768, 1024, 640, 20}; return true;
        case 16: d = {16384, 256, 1280, 20}; return true;
        case 32: case 64: d = {8192, 128, 640, 20}; return true;
        default: return false;  // 24-bit: no table in this commit
    }
}

// ---- packed sample storage: sample k occupies bits [k*w, (k+1)*w), LSB first -------------------
struct BitVec {
    int w = 8;
    int64_t n = 0;                 // samples
    std::vector<uint8_t> bytes;
    explicit BitVec(int width = 8) : w(width) {}
    void reserve_samples(int64_t m) { bytes.reserve((size_t) ((m * w + 7) / 8)); }
    void push(uint64_t v) {
        int64_t bit = n * w;
        size_t need = (size_t) ((bit + w + 7) / 8);
        if (bytes.size() < need) bytes.resize(need, 0);
        if (w >= 8) {
            size_t b = (size_t) (bit / 8);
            for (int k = 0; k < w / 8; ++k) bytes[b + (size_t) k] = (uint8_t) (v >> (8 * k));
        } else {
            size_t b = (size_t) (bit / 8);
            int sh = (int) (bit % 8);
            uint8_t mask = (uint8_t) (((1u << w) - 1u) << sh);
            bytes[b] = (uint8_t) ((bytes[b] & ~mask) | (((uint8_t) v << sh) & mask));
        }
        ++n;
    }
    uint64_t get(int64_t k) const {
        int64_t bit = k * w;
        size_t b = (size_t) (bit / 8);
        if (w >= 8) {
            uint64_t v = 0;
            for (int j = 0; j < w / 8; ++j) v |= (uint64_t) bytes[b + (size_t) j] << (8 * j);
            return v;
        }
        return (bytes[b] >> (bit % 8)) & ((1u << w) - 1u);
    }
    // packed copy of samples [start, start+count) starting at bit 0 of the result
    std::vector<uint8_t> window(int64_t start, int64_t count) const {
        std::vector<uint8_t> out((size_t) ((count * w + 7) / 8), 0);
        if (w >= 8) {
            memcpy(out.data(), bytes.data() + start * (w / 8), (size_t) (count * (w / 8)));
        } else {
            for (int64_t k = 0; k < count; ++k) {
                uint64_t v = get(start + k);
                int64_t bit = k * w;
                out[(size_t) (bit / 8)] |= (uint8_t) (v << (bit % 8));
            }
        }
        return out;
    }
};

// value of sample as double (the conversion the library documents for summaries)
static inline double sample_to_double(const DType & dt, uint64_t v) {
    switch (dt.kind) {
        case 'f':
            if (dt.bits == 32) { float f; uint32_t u = (uint32_t) v; memcpy(&f, &u, 4); return (double) f; }
            else { double d; memcpy(&d, &v, 8); return d; }
        case 'u': return (double) v;
        default: {
            int sh = 64 - dt.bits;
            int64_t s = (int64_t) (v << sh) >> sh;
            return (double) s;
        }
    }
}

// ---- sample patterns: value of stream position k as a pure function of (kind, seed, k) ---------
struct Pattern {
    std::string kind = "random";   // random | ramp | const | blocks | alt | extremes | small | rawbits | nan_sprinkled
    uint64_t seed = 0;
    int64_t p1 = 0;                // const value / block length / period
};

static inline uint64_t mask_bits(int bits) { return bits >= 64 ? ~0ull : ((1ull << bits) - 1ull); }

static inline uint64_t float_bits(const DType & dt, double d) {
    if (dt.bits == 32) { float f = (float) d; uint32_t u; memcpy(&u, &f, 4); return u; }
    uint64_t u; memcpy(&u, &d, 8); return u;
}

static inline uint64_t pattern_sample(const Pattern & p, const DType & dt, int64_t k) {
    uint64_t m = mask_bits(dt.bits);
    uint64_t r = mix64(p.seed, (uint64_t) k);
    if (dt.kind == 'f') {
        double u = (double) (r >> 11) * (1.0 / 9007199254740992.0);
        if (p.kind == "const") return float_bits(dt, (double) p.p1 * 0.25);
        if (p.kind == "ramp") return float_bits(dt, (double) (k % 100000) * 0.5 - (double) (p.seed % 1000));
        if (p.kind == "alt") return float_bits(dt, (k & 1) ? 1.0 + (double) (p.seed % 5) : -2.0);
        if (p.kind == "blocks") { int64_t bl = p.p1 > 0 ? p.p1 : 64; uint64_t rb = mix64(p.seed, (uint64_t) (k / bl)); return float_bits(dt, (rb & 1) ? (double) (rb % 7) : (double) (rb % 7) + u); }
        if (p.kind == "extremes") { double e = (dt.bits == 32) ? 1e30 : 1e250; return float_bits(dt, (r & 2) ? ((r & 1) ? e : -e) : u); }
        if (p.kind == "small") return float_bits(dt, (double) (int) (r % 16) - 8.0);
        if (p.kind == "rawbits") return r & m;     // arbitrary bit patterns incl. NaN/Inf/denormals
        if (p.kind == "nan_sprinkled") return (r % 5 == 0) ? float_bits(dt, NAN) : float_bits(dt, 100.0 * u - 50.0);
        if (p.kind == "offset") { double base = (dt.bits == 32) ? 1.0e6 : ((p.seed >> 3) % 3 == 0 ? 1.0e6 : (p.seed >> 3) % 3 == 1 ? 4.0e9 : 1.0e13); return float_bits(dt, base + u); }
        return float_bits(dt, 2000.0 * u - 1000.0);  // random
    }
    if (p.kind == "const") return (uint64_t) p.p1 & m;
    if (p.kind == "offset" && dt.bits >= 8) {
        // large DC offset with a spread of a few counts: the case in which a cancelling variance formula goes wrong
        uint64_t top = dt.kind == 'i' ? (m >> 1) : m;                // largest positive value
        uint64_t base;
        switch ((p.seed >> 3) % 4) {
            case 0: base = top - 16; break;
            case 1: base = top - (top >> 3); break;
            case 2: base = top >> 1; break;
            default: base = dt.kind == 'i' ? (m - (top >> 2)) : top - 1000 % (top / 2 + 1); break;   // signed: a large negative value
        }
        return (base + (r % 7)) & m;
    }
    if (p.kind == "ramp") return ((uint64_t) k + p.seed) & m;
    if (p.kind == "alt") return (k & 1) ? m : 0;
    if (p.kind == "blocks") {
        // runs of constant blocks (0, all-ones, other constant) and random blocks: exercises auto-omission
        int64_t bl = p.p1 > 0 ? p.p1 : 64;
        uint64_t rb = mix64(p.seed ^ 0xb10c, (uint64_t) (k / bl));
        switch (rb % 5) {
            case 0: return 0;
            case 1: return m;
            case 2: return (rb >> 8) & m;
            default: return r & m;
        }
    }
    if (p.kind == "spike") {
        // constant blocks with, in some of them, one deviating sample at the first / last / middle position of the block:
        // a block that is constant "almost everywhere" must not be treated as constant
        int64_t bl = p.p1 > 0 ? p.p1 : 64;
        uint64_t c0 = (p.seed >> 8) & m;
        uint64_t rb = mix64(p.seed ^ 0x5b1e, (uint64_t) (k / bl));
        if (rb % 3 == 0) return c0;
        int64_t pos = (rb >> 8) % 3 == 0 ? 0 : (rb >> 8) % 3 == 1 ? bl - 1 : bl / 2;
        return (k % bl) == pos ? ((c0 + 1) & m) : c0;
    }
    if (p.kind == "spike2") {
        // as "spike", but the deviating sample may sit anywhere: inside the first or the last byte of a sub-byte block
        // (samples 1..7 / the last 8), next to the edges, in the middle or at a random position; the deviation is +1 or a bit flip
        int64_t bl = p.p1 > 0 ? p.p1 : 64;
        uint64_t c0 = (p.seed >> 8) & m;
        uint64_t rb = mix64(p.seed ^ 0x5b1e2, (uint64_t) (k / bl));
        if (rb % 4 == 0) return c0;
        uint64_t q = rb >> 16;
        int64_t pos;
        switch ((rb >> 8) % 8) {
            case 0: pos = 0; break;
            case 1: pos = 1; break;
            case 2: pos = 1 + (int64_t) (q % 7); break;
            case 3: pos = bl - 1; break;
            case 4: pos = bl - 2; break;
            case 5: pos = bl - 1 - (int64_t) (q % 8); break;
            case 6: pos = bl / 2; break;
            default: pos = (int64_t) (q % (uint64_t) bl); break;
        }
        if (pos < 0) pos = 0;
        if (pos >= bl) pos = bl - 1;
        uint64_t dev = (rb >> 40) & 1 ? ((c0 + 1) & m) : (c0 ^ (1ull << ((rb >> 41) % (uint64_t) dt.bits)));
        return (k % bl) == pos ? dev : c0;
    }
    if (p.kind == "extremes") { switch (r % 4) { case 0: return 0; case 1: return m; case 2: return (m >> 1); default: return (m >> 1) + 1; } }
    if (p.kind == "small") return (r % 3) & m;
    return r & m;  // random, rawbits, nan_sprinkled (integers have no NaN), offset
}

static inline const char * ec_name(int32_t rc) { return jls_error_code_name(rc); }
