// Observation of a file through the public reader API ("dump", DESIGN.md 2.5) and comparators.
#pragma once
#include "program.h"
#include "stats_oracle.h"

struct StatReq { int64_t start, incr, count; };
struct StatRes { StatReq rq; int32_t rc; std::vector<double> v; };

struct SigDump {
    struct jls_signal_def_s def;
    std::string name, units;
    int32_t len_rc = 0;
    int64_t len = 0;
    int32_t read_rc = 0;                 // first failing read (0 if all ok)
    std::vector<uint8_t> samples;        // packed, whole signal (empty when len == 0 or a read failed)
    std::vector<StatRes> stats;
    int32_t anno_rc = 0, utc_rc = 0;
    std::vector<AnnoM> annos;
    std::vector<UtcM> utcs;
};

struct Dump {
    int32_t open_rc = 0;
    std::vector<std::pair<int, std::vector<std::string>>> sources;   // id, 5 strings
    std::map<int, SigDump> sigs;
    int32_t user_rc = 0;
    std::vector<UserM> user;
    std::vector<AnnoM> anno0;
    int32_t anno0_rc = 0;
    std::string absurd;   // the reader reported something no file of this size can hold (e.g. a length of 2^40 samples): never equal to anything
};

// fixed battery of statistics requests derived from the stored definition and the length
inline std::vector<StatReq> stat_battery(const struct jls_signal_def_s & d, int64_t len) {
    std::vector<StatReq> r;
    if (len <= 0) return r;
    int64_t sdf = d.sample_decimate_factor ? d.sample_decimate_factor : 1;
    r.push_back({0, len, 1});
    if (len >= 2) r.push_back({0, len / 2, 2});
    if (len > 3) r.push_back({1, len - 2, 1});
    if (len >= sdf) r.push_back({0, sdf, std::min<int64_t>(len / sdf, 40)});
    if (len >= sdf * 26) r.push_back({sdf, sdf, 25});
    if (len >= 30) r.push_back({3, (len - 6) / 25, 25});
    int64_t w = sdf * (d.summary_decimate_factor ? d.summary_decimate_factor : 1);
    if (len >= w * 26) r.push_back({0, w, len / w});
    return r;
}

inline Dump dump_file(const char * path, int chunk_seed = 0) {
    Dump d;
    Reader rd;
    d.open_rc = rd.open(path);
    if (d.open_rc) return d;
    struct jls_source_def_s * srcs = nullptr; uint16_t ns = 0;
    if (0 == jls_rd_sources(rd.rd, &srcs, &ns)) {
        for (uint16_t k = 0; k < ns; ++k) {
            auto S = [](const char * p) { return p ? std::string(p) : std::string("<NULL>"); };
            d.sources.push_back({srcs[k].source_id, {S(srcs[k].name), S(srcs[k].vendor), S(srcs[k].model), S(srcs[k].version), S(srcs[k].serial_number)}});
        }
    }
    struct jls_signal_def_s * sigs = nullptr; uint16_t nsig = 0;
    std::vector<struct jls_signal_def_s> defs;
    if (0 == jls_rd_signals(rd.rd, &sigs, &nsig)) defs.assign(sigs, sigs + nsig);
    for (auto & sd : defs) {
        SigDump s;
        s.def = sd;
        s.name = sd.name ? sd.name : "<NULL>"; s.units = sd.units ? sd.units : "<NULL>";
        int id = sd.signal_id;
        const DType * dt = nullptr;
        for (int k = 0; k < N_DTYPES; ++k) if (DTYPES[k].code == (sd.data_type & 0xffff)) dt = &DTYPES[k];
        if (sd.signal_type == JLS_SIGNAL_TYPE_FSR && dt) {
            s.len_rc = jls_rd_fsr_length(rd.rd, (uint16_t) id, &s.len);
            // the VFS caps a file at 256 MiB = 2^31 one-bit samples: a longer signal is a lie of the reader, and nothing can be
            // allocated for it (seeded/C19d made the reader report a length of ~10^13 through an overwritten definition chunk)
            if (!s.len_rc && s.len > (1LL << 32)) { if (d.absurd.empty()) d.absurd = strf("signal %d: jls_rd_fsr_length reports %lld samples", id, (long long) s.len); s.read_rc = -998; s.len = -998; }
            if (!s.len_rc && s.len > 0) {
                // read in a partition that depends on chunk_seed
                BitVec bv(dt->bits);
                int64_t pos = 0; uint64_t rs = (uint64_t) chunk_seed * 77 + 1;
                int guard = 0;
                while (pos < s.len) {
                    rs = mix64(rs, (uint64_t) pos);
                    int64_t n = (chunk_seed == 0 || ++guard > 300) ? s.len - pos : (int64_t) (rs % (uint64_t) (sd.samples_per_data * 3 + 1)) + 1;
                    if (n > s.len - pos) n = s.len - pos;
                    std::vector<uint8_t> got;
                    int32_t rc = read_window(rd.rd, id, *dt, pos, n, got);
                    if (rc) { s.read_rc = rc; break; }
                    for (int64_t k = 0; k < n; ++k) bv.push(window_sample(*dt, got, k));
                    pos += n;
                }
                if (!s.read_rc) s.samples = bv.bytes;
                if (summarisable(*dt)) {
                    for (auto & rq : stat_battery(sd, s.len)) {
                        StatRes sr; sr.rq = rq; sr.v.assign((size_t) rq.count * 4, 0.0);
                        sr.rc = jls_rd_fsr_statistics(rd.rd, (uint16_t) id, rq.start, rq.incr, sr.v.data(), rq.count);
                        s.stats.push_back(sr);
                    }
                }
            }
            UtcCollect uc;
            s.utc_rc = jls_rd_utc(rd.rd, (uint16_t) id, INT64_MIN / 4, utc_cbk, &uc);
            s.utcs = uc.v;
            for (auto & u : s.utcs) u.id += sd.sample_id_offset;      // keep absolute ids: the offset depends on which samples are visible
        }
        AnnoCollect ac;
        s.anno_rc = jls_rd_annotations(rd.rd, (uint16_t) id, INT64_MIN / 4, anno_cbk, &ac);
        s.annos = ac.v;
        for (auto & a : s.annos) a.ts += sd.sample_id_offset;
        d.sigs[id] = s;
    }
    UserCollect uc;
    d.user_rc = jls_rd_user_data(rd.rd, user_cbk, &uc);
    d.user = uc.v;
    return d;
}

inline bool dbl_same(double a, double b, double rel = 1e-9) {
    if (std::isnan(a) && std::isnan(b)) return true;
    if (a == b) return true;
    return fabs(a - b) <= rel * (fabs(a) + fabs(b)) + 1e-300;
}

// a == b (returns "" or a description).  If prefix is true, a may be a prefix of b:
// lengths <=, samples equal on a's length, lists are prefixes, statistics are not compared.
inline std::string dump_compare(const Dump & a, const Dump & b, bool prefix, const char * an = "first", const char * bn = "second") {
    if (a.open_rc || b.open_rc) return strf("open rc %d / %d", a.open_rc, b.open_rc);
    if (!a.absurd.empty()) return strf("%s: %s, more than any file the backend can hold", an, a.absurd.c_str());
    if (!b.absurd.empty()) return strf("%s: %s, more than any file the backend can hold", bn, b.absurd.c_str());
    if (!prefix && a.sources != b.sources) return strf("source definitions differ (%zu in %s, %zu in %s)", a.sources.size(), an, b.sources.size(), bn);
    if (prefix) for (auto & s : a.sources) { bool found = false; for (auto & t : b.sources) if (s == t) found = true; if (!found) return strf("source %d of %s is missing or different in %s", s.first, an, bn); }
    for (auto & kv : a.sigs) {
        auto it = b.sigs.find(kv.first);
        if (it == b.sigs.end()) return strf("signal %d exists in %s but not in %s", kv.first, an, bn);
        const SigDump & x = kv.second; const SigDump & y = it->second;
        if (x.def.source_id != y.def.source_id || x.def.signal_type != y.def.signal_type || x.def.data_type != y.def.data_type || x.def.sample_rate != y.def.sample_rate ||
            x.def.samples_per_data != y.def.samples_per_data || x.def.sample_decimate_factor != y.def.sample_decimate_factor || x.def.entries_per_summary != y.def.entries_per_summary ||
            x.def.summary_decimate_factor != y.def.summary_decimate_factor || x.def.annotation_decimate_factor != y.def.annotation_decimate_factor || x.def.utc_decimate_factor != y.def.utc_decimate_factor ||
            x.name != y.name || x.units != y.units) return strf("signal %d: definition differs between %s and %s", kv.first, an, bn);
        if (prefix && x.len_rc) continue;   // an unreadable signal of a damaged original constrains nothing
        if (x.len_rc != y.len_rc) return strf("signal %d: length rc %d in %s, %d in %s", kv.first, x.len_rc, an, y.len_rc, bn);
        if (prefix ? x.len > y.len : x.len != y.len) return strf("signal %d: %lld samples in %s, %lld in %s", kv.first, (long long) x.len, an, (long long) y.len, bn);
        if (x.len > 0 && x.def.sample_id_offset != y.def.sample_id_offset && y.len > 0) return strf("signal %d: sample_id_offset %lld in %s, %lld in %s", kv.first, (long long) x.def.sample_id_offset, an, (long long) y.def.sample_id_offset, bn);
        if (x.read_rc != y.read_rc && !(prefix && y.read_rc == 0)) return strf("signal %d: reading samples returns %d in %s, %d in %s", kv.first, x.read_rc, an, y.read_rc, bn);
        if (!x.read_rc && !y.read_rc && x.len > 0) {
            int bits = (x.def.data_type >> 8) & 0xff;
            int64_t nbits = x.len * bits;
            size_t full = (size_t) (nbits / 8);
            if (y.samples.size() < full || memcmp(x.samples.data(), y.samples.data(), full)) {
                size_t k = 0; while (k < full && k < y.samples.size() && x.samples[k] == y.samples[k]) ++k;
                return strf("signal %d: samples differ between %s and %s (first differing byte %zu = sample %lld)", kv.first, an, bn, k, (long long) (k * 8 / (size_t) bits));
            }
            if (nbits % 8) { uint8_t mask = (uint8_t) ((1u << (nbits % 8)) - 1u); if ((x.samples[full] ^ y.samples[full]) & mask) return strf("signal %d: last partial byte of samples differs", kv.first); }
        }
        if (!prefix) {
            if (x.stats.size() != y.stats.size()) return strf("signal %d: statistics battery size differs", kv.first);
            for (size_t k = 0; k < x.stats.size(); ++k) {
                if (x.stats[k].rc != y.stats[k].rc) return strf("signal %d: statistics(%lld,%lld,%lld) returns %d in %s, %d in %s", kv.first, (long long) x.stats[k].rq.start, (long long) x.stats[k].rq.incr, (long long) x.stats[k].rq.count, x.stats[k].rc, an, y.stats[k].rc, bn);
                if (x.stats[k].rc) continue;
                for (size_t j = 0; j < x.stats[k].v.size(); ++j) if (!dbl_same(x.stats[k].v[j], y.stats[k].v[j])) return strf("signal %d: statistics(%lld,%lld,%lld) entry %zu field %zu: %.12g in %s, %.12g in %s", kv.first, (long long) x.stats[k].rq.start, (long long) x.stats[k].rq.incr, (long long) x.stats[k].rq.count, j / 4, j % 4, x.stats[k].v[j], an, y.stats[k].v[j], bn);
            }
        }
        auto cmp_lists = [&](const char * what, size_t na, size_t nb) -> std::string { if (prefix ? na > nb : na != nb) return strf("signal %d: %zu %s in %s, %zu in %s", kv.first, na, what, an, nb, bn); return ""; };
        std::string r = cmp_lists("annotations", x.annos.size(), y.annos.size());
        if (!r.empty()) return r;
        for (size_t k = 0; k < x.annos.size(); ++k) if (!anno_equal(x.annos[k], y.annos[k])) return strf("signal %d: annotation %zu differs: %s vs %s", kv.first, k, anno_str(x.annos[k]).c_str(), anno_str(y.annos[k]).c_str());
        r = cmp_lists("UTC entries", x.utcs.size(), y.utcs.size());
        if (!r.empty()) return r;
        for (size_t k = 0; k < x.utcs.size(); ++k) if (x.utcs[k].id != y.utcs[k].id || x.utcs[k].utc != y.utcs[k].utc) return strf("signal %d: UTC entry %zu differs", kv.first, k);
    }
    if (!prefix && a.sigs.size() != b.sigs.size()) return strf("%zu signals in %s, %zu in %s", a.sigs.size(), an, b.sigs.size(), bn);
    if (prefix ? a.user.size() > b.user.size() : a.user.size() != b.user.size()) return strf("%zu user-data items in %s, %zu in %s", a.user.size(), an, b.user.size(), bn);
    for (size_t k = 0; k < a.user.size(); ++k) if (a.user[k].meta != b.user[k].meta || a.user[k].stor != b.user[k].stor || a.user[k].data != b.user[k].data) return strf("user-data item %zu differs", k);
    return "";
}
