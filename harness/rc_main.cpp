// Generic rapidcheck engine: generates tapes, hands them to the property's generator/oracle,
// keeps the coverage counters, writes current_case / failure / stats files.
// Compiled once by setup (the only TU that includes rapidcheck); knows nothing about jls.
#include <rapidcheck.h>
#include <cstdio>
#include <cstdlib>
#include <cstring>
#include <map>
#include <set>
#include <string>
#include <unistd.h>
#include <fcntl.h>
#include "mjson.h"
#include "prop_api.h"

namespace {

std::string g_out = ".";
uint64_t g_evals = 0, g_shrink_evals = 0, g_nontrivial = 0;
bool g_failed_once = false;
std::set<uint64_t> g_distinct, g_distinct_nt;
std::map<std::string, uint64_t> g_tags;
std::map<std::string, uint64_t> g_known;
std::map<std::string, long long> g_counters;
std::map<std::string, std::string> g_known_example;
std::vector<std::string> g_samples;   // first two non-trivial cases
std::string g_last_nt;                // last non-trivial case

uint64_t fnv(const std::string & s) {
    uint64_t h = 1469598103934665603ULL;
    for (unsigned char c : s) { h ^= c; h *= 1099511628211ULL; }
    return h;
}

mj::Value sample_value(const std::string & js) {
    if (js.size() <= 6000) {
        try { return mj::parse(js); } catch (...) {}
    }
    return mj::Value(js.substr(0, 6000) + (js.size() > 6000 ? "...(truncated)" : ""));
}

void write_stats(const char * state) {
    mj::Value v = mj::Value::object();
    v.set("state", state);
    v.set("evaluations", (long long) g_evals);
    v.set("shrink_evaluations", (long long) g_shrink_evals);
    v.set("distinct", (long long) g_distinct.size());
    v.set("distinct_nontrivial", (long long) g_distinct_nt.size());
    v.set("nontrivial_evaluations", (long long) g_nontrivial);
    mj::Value tags = mj::Value::object();
    for (auto & t : g_tags) tags.set(t.first, (long long) t.second);
    v.set("tags", tags);
    mj::Value cnts = mj::Value::object();
    for (auto & t : g_counters) cnts.set(t.first, (long long) t.second);
    v.set("counters", cnts);
    mj::Value known = mj::Value::object();
    for (auto & t : g_known) known.set(t.first, (long long) t.second);
    v.set("known", known);
    mj::Value kex = mj::Value::object();
    for (auto & t : g_known_example) kex.set(t.first, sample_value(t.second));
    v.set("known_examples", kex);
    mj::Value samples = mj::Value::array();
    for (auto & s : g_samples) samples.push(sample_value(s));
    if (!g_last_nt.empty() && (g_samples.empty() || g_last_nt != g_samples.back())) samples.push(sample_value(g_last_nt));
    v.set("samples", samples);
    // distinct hashes let the driver count distinct cases across workers
    mj::Value hs = mj::Value::array();
    size_t cnt = 0;
    for (auto h : g_distinct_nt) { if (++cnt > 200000) break; hs.push((long long) h); }
    v.set("nt_hashes", hs);
    mj::write_file(g_out + "/stats.json", mj::dump(v));
}

int g_cur_fd = -1;
void write_current(const std::string & js) {
    // rewritten in place before every execution (cheap: no rename); the driver reads it only
    // after this process has died or hung
    if (g_cur_fd < 0) g_cur_fd = open((g_out + "/current_case.json").c_str(), O_CREAT | O_RDWR | O_TRUNC, 0644);
    if (g_cur_fd < 0) return;
    if (ftruncate(g_cur_fd, 0)) {}
    if (pwrite(g_cur_fd, js.data(), js.size(), 0) < 0) {}
}

CaseOutcome run_one(const std::string & js, bool count) {
    CaseOutcome oc;
    try {
        oc = prop_execute(js);
    } catch (const std::exception & e) {
        fprintf(stderr, "HARNESS-ERROR exception in prop_execute: %s\n", e.what());
        mj::write_file(g_out + "/harness_error.json", js);
        write_stats("harness_error");
        _exit(3);
    }
    if (count) {
        uint64_t h = fnv(js);
        g_distinct.insert(h);
        if (oc.nontrivial) {
            ++g_nontrivial;
            if (g_distinct_nt.insert(h).second) {
                if (g_samples.size() < 2) g_samples.push_back(js);
                g_last_nt = js;
            }
        }
        for (auto & t : oc.tags) ++g_tags[t];
        for (auto & cn : oc.counters) g_counters[cn.first] += cn.second;
        if (!oc.known.empty()) {
            ++g_known[oc.known];
            if (!g_known_example.count(oc.known) || js.size() < g_known_example[oc.known].size()) g_known_example[oc.known] = js;
        }
    }
    return oc;
}

void write_failure(const std::string & js, const CaseOutcome & oc) {
    mj::Value f = mj::Value::object();
    f.set("property", prop_id());
    f.set("clause", oc.clause);
    f.set("detail", oc.detail);
    try { f.set("case", mj::parse(js)); } catch (...) { f.set("case_text", js); }
    mj::write_file(g_out + "/failure.json", mj::dump(f));
}

int do_replay(const std::string & path) {
    std::string text;
    if (!mj::read_file(path, text)) { fprintf(stderr, "cannot read %s\n", path.c_str()); return 2; }
    std::string js = text;
    try {
        mj::Value v = mj::parse(text);
        if (v.kind == mj::Value::Obj && v.has("case")) js = mj::dump(v.at("case"));
    } catch (const std::exception & e) { fprintf(stderr, "replay parse error: %s\n", e.what()); return 2; }
    CaseOutcome oc;
    try { oc = prop_execute(js); }
    catch (const std::exception & e) { fprintf(stderr, "HARNESS-ERROR exception in prop_execute: %s\n", e.what()); return 3; }
    mj::Value r = mj::Value::object();
    r.set("ok", oc.ok);
    r.set("nontrivial", oc.nontrivial);
    r.set("clause", oc.clause);
    r.set("detail", oc.detail);
    r.set("known", oc.known);
    mj::Value tags = mj::Value::array();
    for (auto & t : oc.tags) tags.push(t);
    r.set("tags", tags);
    printf("%s\n", mj::dump(r).c_str());
    if (!oc.ok && oc.known.empty()) return 1;
    return 0;
}

}  // namespace

int main(int argc, char ** argv) {
    std::string replay, enumerate_tier;
    long gen_only = -1;
    for (int k = 1; k < argc; ++k) {
        std::string a = argv[k];
        if (a == "--out" && k + 1 < argc) g_out = argv[++k];
        else if (a == "--replay" && k + 1 < argc) replay = argv[++k];
        else if (a == "--enumerate" && k + 1 < argc) enumerate_tier = argv[++k];
        else if (a == "--gen-only" && k + 1 < argc) gen_only = atol(argv[++k]);
        else if (a == "--id") { printf("%s\n", prop_id()); return 0; }
        else if (a == "--rule") { printf("%s\n", prop_rule()); return 0; }
    }
    if (!replay.empty()) return do_replay(replay);
    if (!enumerate_tier.empty()) {
        if (!prop_enumerate) { printf("{}\n"); return 0; }
        std::string r;
        try { r = prop_enumerate(enumerate_tier, g_out); }
        catch (const std::exception & e) { fprintf(stderr, "HARNESS-ERROR exception in prop_enumerate: %s\n", e.what()); return 3; }
        mj::write_file(g_out + "/enumerate.json", r);
        return 0;
    }

    auto tape_gen = rc::gen::withSize([](int size) {
        auto elem = rc::gen::resize(rc::kNominalSize, rc::gen::arbitrary<uint32_t>());
        auto vec = rc::gen::resize(48 + size * 8, rc::gen::container<std::vector<uint32_t>>(elem));
        return rc::gen::map(vec, [size](std::vector<uint32_t> v) {
            v.insert(v.begin(), (uint32_t) size);   // element 0 carries the rapidcheck size
            return v;
        });
    });

    bool ok = rc::check(std::string("property ") + prop_id(), [&]() {
        std::vector<uint32_t> tv = *tape_gen;
        int size = tv.empty() ? 0 : (int) (tv[0] > 100 ? 100 : tv[0]);
        Tape t(tv.data() + (tv.empty() ? 0 : 1), tv.empty() ? 0 : tv.size() - 1);
        std::string js;
        try { js = prop_generate(t, size); }
        catch (const std::exception & e) {
            fprintf(stderr, "HARNESS-ERROR exception in prop_generate: %s\n", e.what());
            write_stats("harness_error");
            _exit(3);
        }
        if (gen_only >= 0) {
            printf("%s\n", js.c_str());
            ++g_evals;
            return;
        }
        write_current(js);
        bool count = !g_failed_once;
        if (count) ++g_evals; else ++g_shrink_evals;
        CaseOutcome oc = run_one(js, count);
        if ((g_evals & 63) == 0 && count) write_stats("running");
        if (!oc.ok && oc.known.empty()) {
            g_failed_once = true;
            write_failure(js, oc);
            write_stats("failing");
            RC_FAIL(oc.clause + ": " + oc.detail);
        }
    });
    write_stats(ok ? "passed" : "failed");
    return ok ? 0 : 1;
}
