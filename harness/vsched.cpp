#define VERIF_SCHED_IMPL 1
#include "sched_shim.h"
#include "sched_twr_shim.h"
#include "vsched.h"
#include "vfs.h"
#include <semaphore.h>
#include <cstdio>
#include <cstdlib>
#include <cstring>
#include <memory>

namespace sched {

namespace {

enum St { RUN, MUTEX, COND, SLEEP, JOIN, JOINALL, DONE };

struct VT {
    int id = 0;
    sem_t sem;
    St st = RUN;
    void * wait_obj = nullptr;
    int join_target = -1;
    int64_t wake_ns = 0;
    pthread_t real;
    bool has_real = false;
    std::function<void()> fn;
    void * (*cfn)(void *) = nullptr;
    void * carg = nullptr;
    void * retval = nullptr;
};

struct Mx { int owner = -1; int order = 0; };

bool g_active = false;
std::vector<std::unique_ptr<VT>> T;
int g_cur = 0;
int64_t g_now_ns = 0;
Schedule g_sch;
size_t g_choice_pos = 0;
uint64_t g_choice_points = 0;          // choice points seen so far (PCT change points are indices into this sequence)
std::map<int, int64_t> g_prio;         // PCT: current rank per virtual thread
int64_t g_prio_low = 0;
uint64_t g_io_index = 0;
Stats g_stats;
std::map<void *, Mx> g_mx;
std::map<void *, std::vector<int>> g_cv;   // waiters
int g_mutex_count = 0;
void * g_msg_mutex = nullptr, * g_process_mutex = nullptr;
std::vector<Event> g_trace;
std::vector<Decision> g_decisions;
std::string * g_verdict = nullptr;
bool g_peeked_unpopped = false;
const uint64_t STEP_LIMIT = 3000000;

bool holds(int tid, void * m) { auto it = g_mx.find(m); return m && it != g_mx.end() && it->second.owner == tid; }
bool holds_any(int tid) { for (auto & kv : g_mx) if (kv.second.owner == tid) return true; return false; }

[[noreturn]] void fatal(const std::string & v) {
    if (g_verdict) *g_verdict = v;
    fprintf(stderr, "SCHEDULER-VERDICT %s\n", v.c_str());
    fflush(stderr);
    abort();   // blocked library threads cannot be unwound: the driver replays the saved case
}

bool enabled(const VT & t) {
    switch (t.st) {
        case RUN: return true;
        case MUTEX: { auto it = g_mx.find(t.wait_obj); return it == g_mx.end() || it->second.owner == -1; }
        case COND: return false;
        case SLEEP: return g_now_ns >= t.wake_ns;
        case JOIN: return t.join_target >= 0 && T[(size_t) t.join_target]->st == DONE;
        case JOINALL: { for (auto & o : T) if (o->id != t.id && o->st != DONE) return false; return true; }
        default: return false;
    }
}

int pick() {
    if (++g_stats.steps > STEP_LIMIT) fatal("no_progress: more than 3e6 scheduling steps without completion");
    for (int round = 0; round < 2; ++round) {
        std::vector<int> en, sleepers;
        for (auto & t : T) { if (enabled(*t)) en.push_back(t->id); else if (t->st == SLEEP) sleepers.push_back(t->id); }
        if (en.empty()) {
            if (sleepers.empty()) {
                bool all_done = true;
                for (auto & t : T) if (t->st != DONE) all_done = false;
                if (all_done) return -1;
                std::string d = "deadlock: no thread can run:";
                for (auto & t : T) if (t->st != DONE) d += " T" + std::to_string(t->id) + (t->st == MUTEX ? "(mutex)" : t->st == COND ? "(cond)" : t->st == JOIN ? "(join)" : t->st == JOINALL ? "(joinall)" : "(?)");
                fatal(d);
            }
            int64_t mn = INT64_MAX;
            for (int s : sleepers) if (T[(size_t) s]->wake_ns < mn) mn = T[(size_t) s]->wake_ns;
            g_now_ns = mn;   // nothing can run: time passes until the next wake-up
            continue;
        }
        int cur_index = -1;
        for (size_t k = 0; k < en.size(); ++k) if (en[k] == g_cur) cur_index = (int) k;
        bool is_choice_point = en.size() + sleepers.size() > 1;
        if (is_choice_point && !g_sch.pct.empty()) {
            uint64_t idx = g_choice_points++;
            auto prio = [&](int tid) -> int64_t {
                auto it = g_prio.find(tid);
                if (it != g_prio.end()) return it->second;
                int64_t p = 1000 + (int64_t) (g_sch.pct[(size_t) tid % std::min<size_t>(3, g_sch.pct.size())] % 1000) * 8 + tid;   // distinct per thread
                g_prio[tid] = p;
                return p;
            };
            auto best = [&]() { size_t b = 0; for (size_t k = 1; k < en.size(); ++k) if (prio(en[k]) > prio(en[b])) b = k; return b; };
            for (size_t q = 3; q < g_sch.pct.size(); ++q) {
                if ((uint64_t) (g_sch.pct[q] & 0x7fffffffu) != idx) continue;
                if ((g_sch.pct[q] & 0x80000000u) && !sleepers.empty()) {
                    int sl = sleepers[idx % sleepers.size()];
                    g_now_ns = T[(size_t) sl]->wake_ns;
                    ++g_stats.time_jumps;
                    if (g_decisions.size() < 2000000) g_decisions.push_back(Decision{(uint16_t) en.size(), (int16_t) cur_index, 0xffff});
                    return sl;
                }
                g_prio[en[best()]] = --g_prio_low;     // demote the thread that would run now
            }
            size_t k = best();
            if (g_decisions.size() < 2000000) g_decisions.push_back(Decision{(uint16_t) en.size(), (int16_t) cur_index, (uint16_t) k});
            return en[k];
        }
        if (is_choice_point && g_choice_pos < g_sch.choices.size()) {
            uint32_t c = g_sch.choices[g_choice_pos++];
            if ((c & 0x80000000u) && !sleepers.empty()) {
                // let a sleeping thread run next although others could: everybody else was slow (time jumps)
                int s = sleepers[(c & 0x7fffffffu) % sleepers.size()];
                g_now_ns = T[(size_t) s]->wake_ns;
                ++g_stats.time_jumps;
                if (g_decisions.size() < 2000000) g_decisions.push_back(Decision{(uint16_t) en.size(), (int16_t) cur_index, 0xffff});
                return s;
            }
            size_t k = (c & 0x7fffffffu) % en.size();
            if (g_decisions.size() < 2000000) g_decisions.push_back(Decision{(uint16_t) en.size(), (int16_t) cur_index, (uint16_t) k});
            return en[k];
        }
        // no choice left: keep running, else lowest id
        size_t k = cur_index >= 0 ? (size_t) cur_index : 0;
        if (is_choice_point && g_decisions.size() < 2000000) g_decisions.push_back(Decision{(uint16_t) en.size(), (int16_t) cur_index, (uint16_t) k});
        return en[k];
    }
    return -1;
}

void switch_to_next() {
    int me = g_cur;
    int nx = pick();
    if (nx < 0) return;
    if (nx == me) return;
    ++g_stats.switches;
    if (holds_any(me)) ++g_stats.switches_with_lock;
    if (g_peeked_unpopped) ++g_stats.switches_between_peek_pop;
    g_cur = nx;
    sem_post(&T[(size_t) nx]->sem);
    if (T[(size_t) me]->st != DONE) sem_wait(&T[(size_t) me]->sem);
}

VT & me() { return *T[(size_t) g_cur]; }

void * trampoline(void * arg) {
    VT * t = (VT *) arg;
    sem_wait(&t->sem);
    if (t->cfn) t->retval = t->cfn(t->carg); else t->fn();
    t->st = DONE;
    switch_to_next();
    return nullptr;
}

int new_thread(VT * t) {
    t->id = (int) T.size();
    sem_init(&t->sem, 0, 0);
    t->st = RUN;
    T.emplace_back(t);
    pthread_create(&t->real, nullptr, trampoline, t);
    t->has_real = true;
    return t->id;
}

void io_hook_fn(int kind) {
    if (!g_active) return;
    uint64_t idx = g_io_index++;
    auto it = g_sch.latency_ms.find(idx);
    if (it != g_sch.latency_ms.end() && it->second > 0) {
        VT & t = me();
        t.st = SLEEP; t.wake_ns = g_now_ns + it->second * 1000000LL;
        switch_to_next();
        t.st = RUN;
    }
    if (kind == vfs::OP_FSYNC) record("fsync");
    yield_point("io");
}

}  // namespace

bool active() { return g_active; }
int current_thread() { return g_cur; }
int64_t now_ms() { return g_now_ns / 1000000; }
std::vector<Event> & trace() { return g_trace; }
std::vector<Decision> & decisions() { return g_decisions; }
Stats & stats() { return g_stats; }

void record(const std::string & what, int64_t a, int64_t b, uint64_t hash, int32_t rc) {
    Event e; e.thread = g_cur; e.what = what; e.a = a; e.b = b; e.hash = hash; e.rc = rc;
    e.msg_lock = holds(g_cur, g_msg_mutex); e.process_lock = holds(g_cur, g_process_mutex); e.now_ms = now_ms();
    g_trace.push_back(e);
}

void yield_point(const char *) {
    if (!g_active) return;
    me().st = RUN;
    switch_to_next();
}

int spawn_app(const std::function<void()> & fn) {
    VT * t = new VT();
    t->fn = fn;
    int id = new_thread(t);
    yield_point("spawn");
    return id;
}

void join_app(int tid) {
    VT & t = me();
    while (T[(size_t) tid]->st != DONE) { t.st = JOIN; t.join_target = tid; switch_to_next(); }
    t.st = RUN;
}

void run(const Schedule & s, const std::function<void()> & app, std::string & verdict) {
    T.clear(); g_mx.clear(); g_cv.clear(); g_trace.clear(); g_decisions.clear();
    g_sch = s; g_choice_pos = 0; g_choice_points = 0; g_prio.clear(); g_prio_low = 0; g_io_index = 0; g_now_ns = 0; g_stats = Stats(); g_mutex_count = 0; g_msg_mutex = g_process_mutex = nullptr;
    g_peeked_unpopped = false;
    verdict.clear(); g_verdict = &verdict;
    VT * m = new VT();
    m->id = 0; sem_init(&m->sem, 0, 0); m->st = RUN;
    T.emplace_back(m);
    g_cur = 0;
    g_active = true;
    vfs::io_hook = io_hook_fn;
    app();
    // wait until every other virtual thread has finished
    while (true) {
        bool all = true;
        for (auto & t : T) if (t->id != 0 && t->st != DONE) all = false;
        if (all) break;
        m->st = JOINALL;
        switch_to_next();
    }
    m->st = DONE;
    g_active = false;
    vfs::io_hook = nullptr;
    for (auto & t : T) if (t->has_real) pthread_join(t->real, nullptr);
    for (auto & t : T) sem_destroy(&t->sem);
    g_verdict = nullptr;
}

}  // namespace sched

using namespace sched;

// ---- pthread / time replacements used by backend_posix.c -------------------------------------
extern "C" int vs_mutex_init(pthread_mutex_t * m, const pthread_mutexattr_t *) {
    if (!g_active) return 0;
    Mx x; x.order = ++g_mutex_count;
    g_mx[m] = x;
    if (x.order == 1) g_msg_mutex = m;       // jls_bkt_initialize: msg_mutex, process_mutex, then the event flag's mutex
    if (x.order == 2) g_process_mutex = m;
    return 0;
}
extern "C" int vs_mutex_destroy(pthread_mutex_t * m) { if (g_active) g_mx.erase(m); return 0; }
extern "C" int vs_mutex_lock(pthread_mutex_t * m) {
    if (!g_active) return 0;
    yield_point("lock");
    VT & t = me();
    while (g_mx[m].owner != -1) {
        if (g_mx[m].owner == t.id) fatal("deadlock: thread locks a mutex it already holds");
        t.st = MUTEX; t.wait_obj = m; switch_to_next();
    }
    g_mx[m].owner = t.id; t.st = RUN;
    return 0;
}
extern "C" int vs_mutex_unlock(pthread_mutex_t * m) {
    if (!g_active) return 0;
    if (g_mx[m].owner != g_cur) { record("unlock_not_owner"); }
    g_mx[m].owner = -1;
    yield_point("unlock");
    return 0;
}
extern "C" int vs_cond_init(pthread_cond_t * c, const pthread_condattr_t *) { if (g_active) g_cv[c].clear(); return 0; }
extern "C" int vs_cond_destroy(pthread_cond_t * c) { if (g_active) g_cv.erase(c); return 0; }
extern "C" int vs_cond_wait(pthread_cond_t * c, pthread_mutex_t * m) {
    if (!g_active) return 0;
    VT & t = me();
    g_mx[m].owner = -1;
    g_cv[c].push_back(t.id);
    t.st = COND; t.wait_obj = c;
    switch_to_next();              // resumed only after a signal turned the state into MUTEX and the mutex was free
    while (g_mx[m].owner != -1) { t.st = MUTEX; t.wait_obj = m; switch_to_next(); }
    g_mx[m].owner = t.id; t.st = RUN;
    return 0;
}
extern "C" int vs_cond_signal(pthread_cond_t * c) {
    if (!g_active) return 0;
    auto & w = g_cv[c];
    if (!w.empty()) {
        int tid = w.front(); w.erase(w.begin());
        VT & t = *T[(size_t) tid];
        t.st = MUTEX;   // must re-acquire its mutex: wait_obj is set by the waiter's loop; make it runnable via a free-mutex check
        t.wait_obj = nullptr;   // enabled() treats an unknown mutex as free; the waiter re-checks the real one when it runs
    }
    yield_point("signal");
    return 0;
}
extern "C" int vs_thread_create(pthread_t * th, const pthread_attr_t * a, void * (*fn)(void *), void * arg) {
    if (!g_active) return pthread_create(th, a, fn, arg);
    VT * t = new VT();
    t->cfn = fn; t->carg = arg;
    int id = new_thread(t);
    memset(th, 0, sizeof(*th));
    *(uintptr_t *) th = (uintptr_t) (id + 1);   // handle = virtual id + 1 (non-zero: jls_bkt_finalize tests it)
    yield_point("create");
    return 0;
}
extern "C" int vs_thread_join(pthread_t th, void ** rv) {
    if (!g_active) return pthread_join(th, rv);
    int tid = (int) (*(uintptr_t *) &th) - 1;
    if (tid <= 0 || (size_t) tid >= T.size()) return 3;
    join_app(tid);
    if (rv) *rv = T[(size_t) tid]->retval;
    return 0;
}
extern "C" int vs_nanosleep(const struct timespec * req, struct timespec *) {
    if (!g_active) return nanosleep(req, nullptr);
    VT & t = me();
    t.st = SLEEP; t.wake_ns = g_now_ns + (int64_t) req->tv_sec * 1000000000LL + req->tv_nsec;
    switch_to_next();
    t.st = RUN;
    return 0;
}
extern "C" int vs_clock_gettime(clockid_t id, struct timespec * ts) {
    if (!g_active) return clock_gettime(id, ts);
    int64_t base = 1700000000LL * 1000000000LL + g_now_ns;
    ts->tv_sec = (time_t) (base / 1000000000LL); ts->tv_nsec = (long) (base % 1000000000LL);
    return 0;
}

// ---- wrappers used by threaded_writer.c --------------------------------------------------------
static uint64_t fnv_bytes(const void * p, size_t n) { const uint8_t * d = (const uint8_t *) p; uint64_t h = 1469598103934665603ULL; for (size_t k = 0; k < n; ++k) { h ^= d[k]; h *= 1099511628211ULL; } return h; }

extern "C" uint8_t * vs_mrb_alloc(struct jls_mrb_s * self, uint32_t size) {
    yield_point("mrb_alloc");
    uint32_t head_before = self->head;
    uint8_t * p = jls_mrb_alloc(self, size);
    if (g_active) {
        if (!p) g_stats.queue_full_seen = true;
        else if ((uint32_t) (p - self->buf) < head_before) g_stats.queue_wrapped = true;
        record(p ? "mrb_alloc" : "mrb_alloc_full", size, p ? (int64_t) (p - self->buf) : -1);
    }
    return p;
}
extern "C" uint8_t * vs_mrb_peek(struct jls_mrb_s * self, uint32_t * size) {
    yield_point("mrb_peek");
    uint8_t * p = jls_mrb_peek(self, size);
    if (g_active) { record(p ? "mrb_peek" : "mrb_peek_empty", p ? *size : 0, p ? (int64_t) (p - self->buf) : -1); if (p) g_peeked_unpopped = true; }
    return p;
}
extern "C" uint8_t * vs_mrb_pop(struct jls_mrb_s * self, uint32_t * size) {
    yield_point("mrb_pop");
    uint8_t * p = jls_mrb_pop(self, size);
    if (g_active) { record(p ? "mrb_pop" : "mrb_pop_empty", p ? *size : 0, p ? (int64_t) (p - self->buf) : -1); g_peeked_unpopped = false; }
    return p;
}
extern "C" void * vs_memcpy(void * dst, const void * src, size_t n) {
    if (!g_active || n < 2) return memcpy(dst, src, n);
    size_t h = n / 2;
    memcpy(dst, src, h);
    yield_point("memcpy");       // a message is half copied
    memcpy((uint8_t *) dst + h, (const uint8_t *) src + h, n - h);
    return dst;
}
extern "C" int32_t vs_wr_fsr(struct jls_wr_s * self, uint16_t signal_id, int64_t sample_id, const void * data, uint32_t data_length) {
    uint64_t h = 0;
    if (g_active) { record("wr_fsr_begin", signal_id, sample_id, 0, 0); }
    yield_point("wr");
    int32_t rc = jls_wr_fsr(self, signal_id, sample_id, data, data_length);
    if (g_active) { h = (uint64_t) data_length; record("wr_fsr", signal_id, sample_id, h, rc); }
    yield_point("wr_done");
    return rc;
}
extern "C" int32_t vs_wr_fsr_omit_data(struct jls_wr_s * self, uint16_t signal_id, uint32_t enable) {
    yield_point("wr");
    int32_t rc = jls_wr_fsr_omit_data(self, signal_id, enable);
    if (g_active) record("wr_omit", signal_id, enable, 0, rc);
    return rc;
}
extern "C" int32_t vs_wr_annotation(struct jls_wr_s * self, uint16_t signal_id, int64_t timestamp, float y, enum jls_annotation_type_e annotation_type,
                                    uint8_t group_id, enum jls_storage_type_e storage_type, const uint8_t * data, uint32_t data_size) {
    yield_point("wr");
    uint64_t h = fnv_bytes(data, data_size);
    int32_t rc = jls_wr_annotation(self, signal_id, timestamp, y, annotation_type, group_id, storage_type, data, data_size);
    if (g_active) record("wr_annotation", signal_id, timestamp, h, rc);
    yield_point("wr_done");
    return rc;
}
extern "C" int32_t vs_wr_utc(struct jls_wr_s * self, uint16_t signal_id, int64_t sample_id, int64_t utc) {
    yield_point("wr");
    int32_t rc = jls_wr_utc(self, signal_id, sample_id, utc);
    if (g_active) record("wr_utc", signal_id, sample_id, (uint64_t) utc, rc);
    yield_point("wr_done");
    return rc;
}
extern "C" int32_t vs_wr_user_data(struct jls_wr_s * self, uint16_t chunk_meta, enum jls_storage_type_e storage_type, const uint8_t * data, uint32_t data_size) {
    yield_point("wr");
    uint64_t h = fnv_bytes(data, data_size);
    int32_t rc = jls_wr_user_data(self, chunk_meta, storage_type, data, data_size);
    if (g_active) record("wr_user_data", chunk_meta, storage_type, h, rc);
    yield_point("wr_done");
    return rc;
}
extern "C" int32_t vs_wr_flush(struct jls_wr_s * self) {
    yield_point("wr");
    int32_t rc = jls_wr_flush(self);
    if (g_active) record("wr_flush", 0, 0, 0, rc);
    yield_point("wr_done");
    return rc;
}
extern "C" int32_t vs_wr_close(struct jls_wr_s * self) {
    if (g_active) record("wr_close_begin");
    int32_t rc = jls_wr_close(self);
    if (g_active) record("wr_close", 0, 0, 0, rc);
    return rc;
}
