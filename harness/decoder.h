// Independent JLS decoder written from include/jls/format.h + README only (DESIGN.md 2.6 and
// appendix A).  It includes NO jls header: every field is fetched by explicit little-endian byte
// offsets and CRC-32C is computed bit-serially, so a symmetric change to a struct, a pack macro
// or a constant in the library does not silently change the decoder.
#pragma once
#include <cstdint>
#include <cstring>
#include <cmath>
#include <map>
#include <set>
#include <string>
#include <vector>
#include <cstdio>
#include <cstdarg>

namespace dec {

inline std::string sf(const char * fmt, ...) {
    char buf[1024];
    va_list ap; va_start(ap, fmt); vsnprintf(buf, sizeof(buf), fmt, ap); va_end(ap);
    return buf;
}

inline uint32_t crc32c(const uint8_t * d, size_t n) {
    static uint32_t T[256]; static bool init = false;
    if (!init) { for (uint32_t i = 0; i < 256; ++i) { uint32_t x = i; for (int j = 0; j < 8; ++j) x = (x >> 1) ^ (0x82F63B78u & (0u - (x & 1u))); T[i] = x; } init = true; }
    uint32_t c = 0xFFFFFFFFu;
    for (size_t k = 0; k < n; ++k) c = T[(c ^ d[k]) & 0xff] ^ (c >> 8);
    return c ^ 0xFFFFFFFFu;
}
inline uint16_t u16(const uint8_t * p) { return (uint16_t) (p[0] | (p[1] << 8)); }
inline uint32_t u32(const uint8_t * p) { return (uint32_t) p[0] | ((uint32_t) p[1] << 8) | ((uint32_t) p[2] << 16) | ((uint32_t) p[3] << 24); }
inline uint64_t u64(const uint8_t * p) { return (uint64_t) u32(p) | ((uint64_t) u32(p + 4) << 32); }
inline int64_t i64(const uint8_t * p) { return (int64_t) u64(p); }
inline float f32(const uint8_t * p) { uint32_t u = u32(p); float f; memcpy(&f, &u, 4); return f; }
inline double f64(const uint8_t * p) { uint64_t u = u64(p); double f; memcpy(&f, &u, 8); return f; }

enum Tag { T_SOURCE_DEF = 0x01, T_SIGNAL_DEF = 0x02, T_USER_DATA = 0x40, T_END = 0xFF };
enum TrackType { TR_FSR = 0, TR_VSR = 1, TR_ANNO = 2, TR_UTC = 3 };
enum TrackChunk { TC_DEF = 0, TC_HEAD = 1, TC_DATA = 2, TC_INDEX = 3, TC_SUMMARY = 4 };
inline bool is_track(uint8_t tag) { return (tag & 0xE0) == 0x20 && (tag & 7) <= 4; }
inline int track_type(uint8_t tag) { return (tag >> 3) & 3; }
inline int track_chunk(uint8_t tag) { return tag & 7; }

struct Chunk {
    uint64_t off = 0;
    uint64_t item_next = 0, item_prev = 0;
    uint8_t tag = 0, rsv = 0;
    uint16_t meta = 0;
    uint32_t plen = 0, pprev = 0;
    size_t pay = 0;        // offset of the payload in the file
    size_t size = 0;       // total bytes on disk
    bool reachable = false;
    int signal() const { return meta & 0xff; }   // data tags: [7:0] signal id
    int level() const { return (meta >> 12) & 0xf; }
};

struct SourceDef { int id; std::string name, vendor, model, version, serial; };
struct SignalDef { int id, source_id, signal_type; uint32_t data_type, sample_rate, spd, sdf, eps, sumdf, annodf, utcdf; std::string name, units; };
struct Segment { int64_t ts; uint32_t count; uint16_t bits; size_t data_off; size_t data_len; };   // one FSR DATA chunk
struct SummaryEntry { int64_t ts; double mean, std, min, max; };
struct Anno { int64_t ts; uint8_t atype, stor, group; float y; std::vector<uint8_t> data; };
struct Utc { int64_t id, utc; };
struct User { int meta, stor; std::vector<uint8_t> data; };

struct File {
    const std::vector<uint8_t> * bytes = nullptr;
    std::vector<Chunk> chunks;
    std::map<uint64_t, size_t> by_off;
    std::vector<std::string> violations;     // hard conformance violations (the published text states them)
    std::vector<std::string> observations;   // de-facto layout deviations, orphans, ...
    bool closed = false;                     // ends with END and header length == file size
    uint64_t hdr_length = 0;
    int orphans = 0;
    // content
    std::vector<SourceDef> sources;
    std::vector<SignalDef> signals;
    std::map<int, std::vector<Segment>> fsr;                       // signal -> DATA chunks in list order
    std::map<int, std::map<int, std::vector<SummaryEntry>>> fsr_summary;   // signal -> level -> entries in list order
    std::map<int, std::map<int, std::vector<std::vector<uint8_t>>>> fsr_summary_payloads;  // raw SUMMARY payloads
    std::map<int, std::map<int, std::vector<std::vector<uint64_t>>>> fsr_index;            // signal -> level -> per chunk entries
    std::map<int, std::map<int, std::vector<int64_t>>> fsr_index_ts;                        // per chunk header timestamp
    std::map<int, std::vector<Anno>> annos;
    std::map<int, std::vector<Utc>> utcs;
    std::vector<User> user;
    int max_fsr_level = 0;

    void V(const std::string & s) { if (violations.size() < 40) violations.push_back(s); }
    void O(const std::string & s) { if (observations.size() < 40) observations.push_back(s); }
    const Chunk * at(uint64_t off) const { auto it = by_off.find(off); return it == by_off.end() ? nullptr : &chunks[it->second]; }
    const uint8_t * payload(const Chunk & c) const { return bytes->data() + c.pay; }
    const SignalDef * signal(int id) const { for (auto & s : signals) if (s.id == id) return &s; return nullptr; }
};

inline uint32_t disk_size(uint32_t plen) { if (!plen) return 0; uint32_t t = plen + 4; return (t + 7u) & ~7u; }

static const uint8_t FILE_ID[16] = {0x6a, 0x6c, 0x73, 0x66, 0x6d, 0x74, 0x0d, 0x0a, 0x20, 0x0a, 0x20, 0x1a, 0x20, 0x20, 0xb2, 0x1c};

// list key: chunks that are chained through item_next/item_prev must share it
inline uint64_t list_key(const Chunk & c) {
    if (c.tag == T_SOURCE_DEF) return 1;
    if (c.tag == T_USER_DATA) return 2;
    if (c.tag == T_SIGNAL_DEF) return 3;
    if (is_track(c.tag)) {
        int tc = track_chunk(c.tag);
        if (tc == TC_DEF || tc == TC_HEAD) return 3;   // definition list
        return 0x1000000ull | ((uint64_t) c.signal() << 16) | ((uint64_t) track_type(c.tag) << 12) | ((uint64_t) tc << 8) | (uint64_t) (tc == TC_DATA ? 0 : c.level());
    }
    return 0xffffffffull;
}

// ---- pass 1: forward walk, byte-level predicates ------------------------------------------------
inline void parse(File & f, const std::vector<uint8_t> & b) {
    f.bytes = &b;
    const size_t n = b.size();
    if (n < 32) { f.V(sf("file has %zu bytes: no file header", n)); return; }
    if (memcmp(b.data(), FILE_ID, 16)) f.V("file identification bytes differ");
    f.hdr_length = u64(&b[16]);
    uint8_t major = b[27];
    if (major != 1) f.V(sf("format major version %u", major));
    if (crc32c(b.data(), 28) != u32(&b[28])) f.V("file header CRC mismatch");
    size_t off = 32;
    uint32_t prev_plen = 0;
    bool saw_end = false;
    while (off < n) {
        if (saw_end) { f.V(sf("bytes after the END chunk at offset %zu", off)); break; }
        if (off % 8) { f.V(sf("chunk offset %zu not 8-byte aligned", off)); break; }
        if (off + 32 > n) { f.V(sf("truncated chunk header at %zu", off)); break; }
        const uint8_t * h = &b[off];
        Chunk c;
        c.off = off; c.item_next = u64(h); c.item_prev = u64(h + 8); c.tag = h[16]; c.rsv = h[17]; c.meta = u16(h + 18);
        c.plen = u32(h + 20); c.pprev = u32(h + 24);
        if (crc32c(h, 28) != u32(h + 28)) { f.V(sf("chunk header CRC mismatch at %zu", off)); break; }
        uint32_t ds = disk_size(c.plen);
        if (off + 32 + ds > n) { f.V(sf("chunk at %zu (tag 0x%02x, payload %u) extends beyond the file", off, c.tag, c.plen)); break; }
        c.pay = off + 32; c.size = 32 + ds;
        if (c.plen) {
            const uint8_t * p = &b[c.pay];
            if (crc32c(p, c.plen) != u32(p + ds - 4)) f.V(sf("payload CRC mismatch at %zu (tag 0x%02x)", off, c.tag));
            for (uint32_t k = c.plen; k < ds - 4; ++k) if (p[k]) { f.V(sf("non-zero pad byte in chunk at %zu", off)); break; }
        }
        if (c.rsv) f.V(sf("rsv0_u8 = %u in chunk at %zu", c.rsv, off));
        if (c.pprev != prev_plen) f.V(sf("payload_prev_length %u at %zu, previous chunk has payload_length %u", c.pprev, off, prev_plen));
        if (!(c.tag == T_SOURCE_DEF || c.tag == T_SIGNAL_DEF || c.tag == T_USER_DATA || c.tag == T_END || is_track(c.tag))) f.V(sf("unknown tag 0x%02x at %zu", c.tag, off));
        if (c.tag == T_END) { saw_end = true; if (c.plen || c.item_next || c.item_prev) f.V("END chunk with payload or links"); }
        prev_plen = c.plen;
        f.by_off[off] = f.chunks.size();
        f.chunks.push_back(c);
        off += c.size;
    }
    f.closed = saw_end && off == n;
    if (f.closed && f.hdr_length != n) f.V(sf("file header length %llu, file size %zu", (unsigned long long) f.hdr_length, n));
    if (!saw_end) f.O("no END chunk: file is not closed");
    // backward walk via payload_prev_length
    if (!f.chunks.empty() && f.violations.empty()) {
        size_t k = f.chunks.size() - 1;
        uint64_t pos = f.chunks[k].off;
        while (k > 0) {
            uint64_t prev = pos - 32 - disk_size(f.chunks[k].pprev);
            if (prev != f.chunks[k - 1].off) { f.V(sf("walking back from %llu via payload_prev_length lands at %llu, previous chunk is at %llu", (unsigned long long) pos, (unsigned long long) prev, (unsigned long long) f.chunks[k - 1].off)); break; }
            pos = prev; --k;
        }
    }
}

inline bool rd_str(const uint8_t * p, size_t len, size_t & pos, std::string & out) {
    size_t s = pos;
    while (pos < len && p[pos]) ++pos;
    if (pos >= len) return false;
    out.assign((const char *) p + s, pos - s);
    ++pos;                       // NUL
    if (pos < len && p[pos] == 0x1f) ++pos;   // unit separator (de facto)
    return true;
}

// step between the first timestamps of consecutive entries of an FSR index chunk at `level`
inline int64_t fsr_step(const SignalDef & s, int level) {
    if (level <= 1) return s.spd;
    int64_t st = (int64_t) s.eps * s.sdf;
    for (int l = 3; l <= level; ++l) st *= s.sumdf;
    return st;
}

// ---- pass 2: structure + content ---------------------------------------------------------------
inline void analyse(File & f) {
    const auto & b = *f.bytes;
    if (f.chunks.empty()) return;
    // initial chunks (README)
    if (f.chunks.size() >= 3) {
        if (f.chunks[0].tag != T_USER_DATA || f.chunks[0].meta != 0) f.V("first chunk is not USER_DATA(0)");
        if (f.chunks[1].tag != T_SOURCE_DEF || f.chunks[1].meta != 0) f.V("second chunk is not SOURCE_DEF(0)");
        if (f.chunks[2].tag != T_SIGNAL_DEF || f.chunks[2].meta != 0) f.V("third chunk is not SIGNAL_DEF(0)");
    } else f.O("fewer than three chunks");
    // link symmetry + list membership
    for (auto & c : f.chunks) {
        if (c.tag == T_END) continue;
        if (c.item_next) {
            const Chunk * t = f.at(c.item_next);
            if (!t) f.V(sf("item_next of chunk at %llu points to %llu: not a chunk boundary", (unsigned long long) c.off, (unsigned long long) c.item_next));
            else {
                if (t->item_prev != c.off) f.V(sf("chunk %llu.item_next = %llu but that chunk's item_prev = %llu", (unsigned long long) c.off, (unsigned long long) c.item_next, (unsigned long long) t->item_prev));
                if (list_key(*t) != list_key(c)) f.V(sf("item_next of chunk at %llu (tag 0x%02x meta 0x%04x) leads to a chunk of another list (tag 0x%02x meta 0x%04x)", (unsigned long long) c.off, c.tag, c.meta, t->tag, t->meta));
                if (t->off <= c.off) f.V(sf("item_next of chunk at %llu points backwards", (unsigned long long) c.off));
            }
        }
        if (c.item_prev) {
            const Chunk * t = f.at(c.item_prev);
            if (!t) f.V(sf("item_prev of chunk at %llu points to %llu: not a chunk boundary", (unsigned long long) c.off, (unsigned long long) c.item_prev));
            else if (t->item_next != c.off) {
                // after a repair the predecessor's link may have been cut: then this chunk is an orphan; judged below by reachability
                f.O(sf("chunk %llu.item_prev = %llu but that chunk's item_next = %llu", (unsigned long long) c.off, (unsigned long long) c.item_prev, (unsigned long long) t->item_next));
            }
        }
    }
    // definitions: walk the three initial lists
    auto walk = [&](uint64_t start, std::vector<const Chunk *> & out) {
        std::set<uint64_t> seen;
        uint64_t o = start;
        while (o) {
            const Chunk * c = f.at(o);
            if (!c || seen.count(o)) break;
            seen.insert(o);
            const_cast<Chunk *>(c)->reachable = true;
            out.push_back(c);
            o = c->item_next;
        }
    };
    std::vector<const Chunk *> lu, ls, lg;
    if (f.chunks.size() >= 3) { walk(f.chunks[0].off, lu); walk(f.chunks[1].off, ls); walk(f.chunks[2].off, lg); }
    for (auto c : ls) {
        if (c->tag != T_SOURCE_DEF) continue;
        SourceDef s; s.id = c->meta;
        const uint8_t * p = f.payload(*c); size_t pos = 64;
        if (c->plen < 64) { f.V(sf("SOURCE_DEF at %llu shorter than its 64 reserved bytes", (unsigned long long) c->off)); continue; }
        for (size_t k = 0; k < 64; ++k) if (p[k]) { f.O("SOURCE_DEF reserved bytes not zero"); break; }
        if (!rd_str(p, c->plen, pos, s.name) || !rd_str(p, c->plen, pos, s.vendor) || !rd_str(p, c->plen, pos, s.model) || !rd_str(p, c->plen, pos, s.version) || !rd_str(p, c->plen, pos, s.serial))
            f.V(sf("SOURCE_DEF %d: strings not terminated", s.id));
        f.sources.push_back(s);
    }
    std::map<int, std::map<int, const Chunk *>> heads;   // signal -> track type -> HEAD chunk
    for (auto c : lg) {
        if (c->tag == T_SIGNAL_DEF) {
            SignalDef s; s.id = c->meta;
            const uint8_t * p = f.payload(*c);
            if (c->plen < 36 + 92) { f.V(sf("SIGNAL_DEF %d payload too short", s.id)); continue; }
            s.source_id = u16(p); s.signal_type = p[2]; s.data_type = u32(p + 4); s.sample_rate = u32(p + 8); s.spd = u32(p + 12); s.sdf = u32(p + 16);
            s.eps = u32(p + 20); s.sumdf = u32(p + 24); s.annodf = u32(p + 28); s.utcdf = u32(p + 32);
            size_t pos = 36 + 92;
            if (!rd_str(p, c->plen, pos, s.name) || !rd_str(p, c->plen, pos, s.units)) f.V(sf("SIGNAL_DEF %d: strings not terminated", s.id));
            f.signals.push_back(s);
        } else if (is_track(c->tag) && track_chunk(c->tag) == TC_HEAD) {
            if (c->plen != 128) f.V(sf("TRACK HEAD at %llu has payload %u, expected 16 x u64", (unsigned long long) c->off, c->plen));
            else heads[c->signal()][track_type(c->tag)] = c;
        } else if (is_track(c->tag) && track_chunk(c->tag) == TC_DEF) {
            if (c->plen) f.O("TRACK DEF with payload");
        } else f.V(sf("chunk with tag 0x%02x in the signal definition list", c->tag));
    }
    for (auto c : lu) {
        if (c->tag != T_USER_DATA) { f.V("non USER_DATA chunk in the user data list"); continue; }
        if (c == lu.front()) { if (c->plen) f.O("initial USER_DATA chunk has a payload"); continue; }
        User u; u.meta = c->meta & 0x0fff; u.stor = (c->meta >> 12) & 0xf;
        u.data.assign(f.payload(*c), f.payload(*c) + c->plen);
        f.user.push_back(u);
    }
    // tracks
    for (auto & hs : heads) {
        int sig = hs.first;
        const SignalDef * sd = f.signal(sig);
        for (auto & ht : hs.second) {
            int tt = ht.first;
            const Chunk * head = ht.second;
            const uint8_t * hp = f.payload(*head);
            // level 0: data list
            uint64_t d0 = u64(hp);
            std::vector<const Chunk *> data;
            if (d0) {
                const Chunk * c = f.at(d0);
                if (!c) { f.V(sf("signal %d track %d HEAD offset[0]=%llu is not a chunk", sig, tt, (unsigned long long) d0)); }
                else {
                    if (!(is_track(c->tag) && track_type(c->tag) == tt && track_chunk(c->tag) == TC_DATA && c->signal() == sig)) f.V(sf("signal %d track %d HEAD offset[0] leads to tag 0x%02x meta 0x%04x", sig, tt, c->tag, c->meta));
                    else { if (c->item_prev) f.V(sf("signal %d track %d: first DATA chunk has item_prev", sig, tt)); walk(d0, data); }
                }
            }
            for (auto c : data) {
                const uint8_t * p = f.payload(*c);
                if (c->level() != 0 || (c->meta & 0x0f00)) f.V(sf("DATA chunk at %llu has chunk_meta 0x%04x", (unsigned long long) c->off, c->meta));
                if (tt == TR_FSR) {
                    if (c->plen < 16) { f.V("FSR DATA payload shorter than its header"); continue; }
                    Segment s; s.ts = i64(p); s.count = u32(p + 8); s.bits = u16(p + 12); s.data_off = c->pay + 16; s.data_len = c->plen - 16;
                    if (u16(p + 14)) f.V("FSR DATA payload header rsv16 != 0");
                    if ((uint64_t) s.count * s.bits > (uint64_t) s.data_len * 8) f.V(sf("FSR DATA at %llu: %u entries of %u bits do not fit %zu bytes", (unsigned long long) c->off, s.count, s.bits, s.data_len));
                    if (!f.fsr[sig].empty()) { const Segment & q = f.fsr[sig].back(); if (s.ts < q.ts + (int64_t) q.count) f.V(sf("signal %d: DATA chunk timestamps overlap (%lld after %lld+%u)", sig, (long long) s.ts, (long long) q.ts, q.count)); }
                    f.fsr[sig].push_back(s);
                } else if (tt == TR_ANNO) {
                    if (c->plen < 28) { f.V("ANNOTATION DATA payload too short"); continue; }
                    Anno a; a.ts = i64(p); a.atype = p[16]; a.stor = p[17]; a.group = p[18]; a.y = f32(p + 20);
                    uint32_t dsz = u32(p + 24);
                    if (28ull + dsz > c->plen) { f.V(sf("ANNOTATION at %llu: data_size %u exceeds payload", (unsigned long long) c->off, dsz)); continue; }
                    if (p[19]) f.O("annotation rsv8_1 != 0");
                    a.data.assign(p + 28, p + 28 + dsz);
                    if (!f.annos[sig].empty() && a.ts < f.annos[sig].back().ts) f.V(sf("signal %d: annotation timestamps decrease", sig));
                    f.annos[sig].push_back(a);
                } else if (tt == TR_UTC) {
                    if (c->plen != 24) { f.V("UTC DATA payload is not 24 bytes"); continue; }
                    if (u32(p + 8) != 1 || u16(p + 12) != 64) f.O("UTC DATA payload header entry_count/entry_size_bits unexpected");
                    f.utcs[sig].push_back(Utc{i64(p), i64(p + 16)});
                }
            }
            // levels >= 1: index lists and trees
            for (int L = 1; L < 16; ++L) {
                uint64_t o = u64(hp + 8 * L);
                if (!o) continue;
                std::vector<const Chunk *> idx;
                const Chunk * c0 = f.at(o);
                if (!c0 || !(is_track(c0->tag) && track_type(c0->tag) == tt && track_chunk(c0->tag) == TC_INDEX && c0->signal() == sig && c0->level() == L)) {
                    f.V(sf("signal %d track %d HEAD offset[%d]=%llu does not lead to an INDEX chunk of that signal/level", sig, tt, L, (unsigned long long) o));
                    continue;
                }
                if (c0->item_prev) f.V(sf("signal %d track %d level %d: first INDEX chunk has item_prev", sig, tt, L));
                walk(o, idx);
                if (tt == TR_FSR && L > f.max_fsr_level) f.max_fsr_level = L;
                for (auto c : idx) {
                    // INDEX immediately followed by its SUMMARY
                    const Chunk * s = f.at(c->off + c->size);
                    if (!s || !(is_track(s->tag) && track_type(s->tag) == tt && track_chunk(s->tag) == TC_SUMMARY && s->signal() == sig && s->level() == L)) {
                        f.V(sf("signal %d track %d level %d: INDEX at %llu is not immediately followed by its SUMMARY", sig, tt, L, (unsigned long long) c->off));
                        continue;
                    }
                    const_cast<Chunk *>(s)->reachable = true;
                    const uint8_t * p = f.payload(*c);
                    if (c->plen < 16) { f.V("INDEX payload shorter than its header"); continue; }
                    int64_t T = i64(p); uint32_t cnt = u32(p + 8); uint16_t esb = u16(p + 12);
                    const uint8_t * sp = f.payload(*s);
                    if (s->plen < 16) { f.V("SUMMARY payload shorter than its header"); continue; }
                    int64_t sT = i64(sp); uint32_t scnt = u32(sp + 8); uint16_t sesb = u16(sp + 12);
                    if (tt == TR_FSR) {
                        if (esb != 64) f.V(sf("FSR INDEX entry_size_bits %u", esb));
                        if (16ull + 8ull * cnt != c->plen) f.V(sf("FSR INDEX at %llu: %u entries, payload %u", (unsigned long long) c->off, cnt, c->plen));
                        if (sesb != 128 && sesb != 256) f.V(sf("FSR SUMMARY entry_size_bits %u", sesb));
                        else if (16ull + (uint64_t) scnt * (sesb / 8) != s->plen) f.V(sf("FSR SUMMARY at %llu: %u entries of %u bits, payload %u", (unsigned long long) s->off, scnt, sesb, s->plen));
                        if (sT != T) f.V(sf("signal %d level %d: INDEX timestamp %lld, SUMMARY timestamp %lld", sig, L, (long long) T, (long long) sT));
                        std::vector<uint64_t> ent;
                        for (uint32_t k = 0; k < cnt && 16ull + 8ull * (k + 1) <= c->plen; ++k) ent.push_back(u64(p + 16 + 8 * k));
                        f.fsr_index[sig][L].push_back(ent);
                        f.fsr_index_ts[sig][L].push_back(T);
                        if (sd) {
                            int64_t step = fsr_step(*sd, L);
                            for (size_t k = 0; k < ent.size(); ++k) {
                                if (!ent[k]) { if (L != 1) f.V(sf("signal %d level %d: index entry %zu is 0 (only level-1 entries may be omitted)", sig, L, k)); continue; }
                                const Chunk * t = f.at(ent[k]);
                                int want_tc = L == 1 ? TC_DATA : TC_INDEX;
                                if (!t || !(is_track(t->tag) && track_type(t->tag) == TR_FSR && track_chunk(t->tag) == want_tc && t->signal() == sig && (L == 1 || t->level() == L - 1))) {
                                    f.V(sf("signal %d level %d: index entry %zu -> %llu is not a %s chunk of level %d", sig, L, k, (unsigned long long) ent[k], L == 1 ? "DATA" : "INDEX", L - 1));
                                    continue;
                                }
                                if (t->plen >= 8) {
                                    int64_t tts = i64(f.payload(*t));
                                    if (tts != T + (int64_t) k * step) f.V(sf("signal %d level %d: index entry %zu leads to timestamp %lld, expected %lld + %zu*%lld", sig, L, k, (long long) tts, (long long) T, k, (long long) step));
                                }
                                const_cast<Chunk *>(t)->reachable = true;
                            }
                        }
                        std::vector<uint8_t> raw(sp, sp + s->plen);
                        f.fsr_summary_payloads[sig][L].push_back(raw);
                        if (sesb == 128 || sesb == 256) {
                            int64_t estep = sd ? (int64_t) sd->sdf : 1;
                            if (sd) for (int l = 2; l <= L; ++l) estep *= sd->sumdf;
                            for (uint32_t k = 0; k < scnt && 16ull + (uint64_t) (k + 1) * (sesb / 8) <= s->plen; ++k) {
                                SummaryEntry e; e.ts = sT + (int64_t) k * estep;
                                const uint8_t * q = sp + 16 + (size_t) k * (sesb / 8);
                                if (sesb == 128) { e.mean = f32(q); e.std = f32(q + 4); e.min = f32(q + 8); e.max = f32(q + 12); }
                                else { e.mean = f64(q); e.std = f64(q + 8); e.min = f64(q + 16); e.max = f64(q + 24); }
                                f.fsr_summary[sig][L].push_back(e);
                            }
                        }
                    } else {
                        if (esb != 128) f.V(sf("track %d INDEX entry_size_bits %u", tt, esb));
                        if (16ull + 16ull * cnt != c->plen) f.V(sf("INDEX at %llu: %u entries, payload %u", (unsigned long long) c->off, cnt, c->plen));
                        for (uint32_t k = 0; k < cnt && 16ull + 16ull * (k + 1) <= c->plen; ++k) {
                            int64_t ets = i64(p + 16 + 16 * k); uint64_t eo = u64(p + 24 + 16 * k);
                            if (k == 0 && ets != T) f.V(sf("signal %d track %d level %d: INDEX header timestamp %lld, first entry %lld", sig, tt, L, (long long) T, (long long) ets));
                            const Chunk * t = f.at(eo);
                            int want_tc = L == 1 ? TC_DATA : TC_INDEX;
                            if (!t || !(is_track(t->tag) && track_type(t->tag) == tt && track_chunk(t->tag) == want_tc && t->signal() == sig && (L == 1 || t->level() == L - 1))) {
                                f.V(sf("signal %d track %d level %d: index entry %u -> %llu is not a %s chunk", sig, tt, L, k, (unsigned long long) eo, L == 1 ? "DATA" : "INDEX"));
                                continue;
                            }
                            if (t->plen >= 8 && i64(f.payload(*t)) != ets) f.V(sf("signal %d track %d level %d: index entry %u has timestamp %lld but leads to %lld", sig, tt, L, k, (long long) ets, (long long) i64(f.payload(*t))));
                            const_cast<Chunk *>(t)->reachable = true;
                        }
                        (void) scnt; (void) sesb;
                    }
                }
            }
            const_cast<Chunk *>(head)->reachable = true;
        }
    }
    // reachability: data chunks are reachable through lists walked above; everything else is an orphan
    for (auto & c : f.chunks) {
        if (c.tag == T_END) continue;
        if (!c.reachable) { ++f.orphans; }
    }
    if (f.orphans) f.O(sf("%d chunk(s) not reachable from the initial lists, head tables or index entries", f.orphans));
}

inline File decode(const std::vector<uint8_t> & bytes) {
    File f;
    parse(f, bytes);
    if (f.violations.empty()) analyse(f);
    return f;
}

// value of sample k (LSB-first packing) of a segment
inline uint64_t seg_sample(const File & f, const Segment & s, uint32_t k) {
    const uint8_t * d = f.bytes->data() + s.data_off;
    uint64_t bit = (uint64_t) k * s.bits;
    if (s.bits >= 8) { uint64_t v = 0; for (int j = 0; j < s.bits / 8; ++j) v |= (uint64_t) d[bit / 8 + (size_t) j] << (8 * j); return v; }
    return (d[bit / 8] >> (bit % 8)) & ((1u << s.bits) - 1u);
}

}  // namespace dec
