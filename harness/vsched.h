// Deterministic scheduler with virtual time for the threaded writer (DESIGN.md 2.8).
#pragma once
#include <cstdint>
#include <functional>
#include <map>
#include <string>
#include <vector>

namespace sched {

struct Event {              // one record of the execution trace
    int thread;             // virtual thread id (0 = application thread that started the session)
    std::string what;       // mrb_alloc / mrb_peek / mrb_pop / wr_fsr / wr_annotation / ... / fsync / flush_return ...
    int64_t a = 0, b = 0;   // arguments (signal id, sample id / size ...)
    uint64_t hash = 0;      // payload hash
    int32_t rc = 0;
    bool msg_lock = false, process_lock = false;   // locks held by the acting thread
    int64_t now_ms = 0;
};

struct Schedule {
    std::vector<uint32_t> choices;            // at a scheduling point with n > 1 enabled threads: enabled[choice % n]; exhausted: stay, else lowest id
    std::map<uint64_t, int64_t> latency_ms;   // backend I/O operation index -> virtual duration of that operation
    // PCT-style priority schedule (used instead of `choices` when non-empty): pct[0..2] rank the virtual threads 0..2 (higher runs first);
    // every further element is a change point: at the choice point with that index (low 31 bits) the thread that would run is demoted
    // below all others; with the top bit set a sleeping thread is woken instead (time jump).  Always run the highest-ranked enabled thread.
    std::vector<uint32_t> pct;
};

// One record per scheduling point at which a choice is consumed (>= 2 candidates among enabled threads and sleepers).
// Used by the bounded-preemption enumeration: a schedule prefix is the list of `chosen` indices.
struct Decision { uint16_t n_enabled; int16_t cur_index; uint16_t chosen; };   // cur_index = position of the running thread among the enabled ones, -1 if it cannot continue; chosen = 0xffff for a time jump

struct Stats { uint64_t steps = 0, switches = 0, switches_with_lock = 0, switches_between_peek_pop = 0, time_jumps = 0; bool queue_full_seen = false, queue_wrapped = false; };

// Runs `app` as virtual thread 0 under the schedule; returns when every virtual thread has finished.
// verdict: "" | "deadlock: ..." | "no_progress: ..."  (on those the process cannot continue: the caller must abort)
void run(const Schedule & s, const std::function<void()> & app, std::string & verdict);
// second application thread (call from inside app); joined automatically at the end of run() or by join_app()
int spawn_app(const std::function<void()> & fn);
void join_app(int tid);
void yield_point(const char * why);           // extra scheduling point for the harness
std::vector<Event> & trace();
std::vector<Decision> & decisions();
void record(const std::string & what, int64_t a = 0, int64_t b = 0, uint64_t hash = 0, int32_t rc = 0);
Stats & stats();
int64_t now_ms();
int current_thread();
bool active();

}  // namespace sched
