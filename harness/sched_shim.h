/* Force-included in front of src/backend_posix.c in the `sched` builds: the pthread, sleep and
 * clock calls of the backend go to the deterministic scheduler (harness/sched.cpp). */
#ifndef VERIF_SCHED_SHIM_H
#define VERIF_SCHED_SHIM_H
#include <pthread.h>
#include <time.h>
#ifdef __cplusplus
extern "C" {
#endif
int vs_mutex_init(pthread_mutex_t * m, const pthread_mutexattr_t * a);
int vs_mutex_destroy(pthread_mutex_t * m);
int vs_mutex_lock(pthread_mutex_t * m);
int vs_mutex_unlock(pthread_mutex_t * m);
int vs_cond_init(pthread_cond_t * c, const pthread_condattr_t * a);
int vs_cond_destroy(pthread_cond_t * c);
int vs_cond_wait(pthread_cond_t * c, pthread_mutex_t * m);
int vs_cond_signal(pthread_cond_t * c);
int vs_thread_create(pthread_t * t, const pthread_attr_t * a, void * (*fn)(void *), void * arg);
int vs_thread_join(pthread_t t, void ** rv);
int vs_nanosleep(const struct timespec * req, struct timespec * rem);
int vs_clock_gettime(clockid_t id, struct timespec * ts);
#ifdef __cplusplus
}
#endif
#ifndef VERIF_SCHED_IMPL
#define pthread_mutex_init vs_mutex_init
#define pthread_mutex_destroy vs_mutex_destroy
#define pthread_mutex_lock vs_mutex_lock
#define pthread_mutex_unlock vs_mutex_unlock
#define pthread_cond_init vs_cond_init
#define pthread_cond_destroy vs_cond_destroy
#define pthread_cond_wait vs_cond_wait
#define pthread_cond_signal vs_cond_signal
#define pthread_create vs_thread_create
#define pthread_join vs_thread_join
#define nanosleep vs_nanosleep
#define clock_gettime vs_clock_gettime
#endif
#endif
