// Generic libFuzzer engine: the mutated bytes are the tape (little-endian uint32 words; byte 0 is
// the size parameter).  Same per-property decoder/oracle as the rapidcheck engine; the oracle is
// inside the target (a failed oracle traps).  The case JSON is saved before execution so that a
// crash leaves a replay file that the rapidcheck binary's --replay understands.
#include <cstdio>
#include <cstdlib>
#include <cstring>
#include <set>
#include <string>
#include <vector>
#include <unistd.h>
#include <fcntl.h>
#include "mjson.h"
#include "prop_api.h"

namespace {
std::string g_out = ".";
int g_cur_fd = -1;
uint64_t g_evals = 0, g_nt = 0;
std::set<uint64_t> g_nt_hashes;
std::string g_sample;
uint64_t fnv(const std::string & s) { uint64_t h = 1469598103934665603ULL; for (unsigned char c : s) { h ^= c; h *= 1099511628211ULL; } return h; }
void write_stats() {
    mj::Value v = mj::Value::object();
    v.set("evaluations", (long long) g_evals);
    v.set("distinct_nontrivial", (long long) g_nt_hashes.size());
    mj::Value hs = mj::Value::array();
    size_t n = 0; for (auto h : g_nt_hashes) { if (++n > 100000) break; hs.push((long long) h); }
    v.set("nt_hashes", hs);
    mj::Value smp = mj::Value::array();
    if (!g_sample.empty() && g_sample.size() < 6000) { try { smp.push(mj::parse(g_sample)); } catch (...) {} }
    v.set("samples", smp);
    mj::write_file(g_out + "/stats.json", mj::dump(v));
}
}

extern "C" int LLVMFuzzerInitialize(int *, char ***) {
    const char * o = getenv("VERIF_FUZZ_OUT");
    if (o) g_out = o;
    atexit(write_stats);
    return 0;
}

extern "C" int LLVMFuzzerTestOneInput(const uint8_t * data, size_t size) {
    if (size < 1) return 0;
    int sz = data[0] % 101;
    std::vector<uint32_t> tape((size - 1) / 4);
    for (size_t k = 0; k < tape.size(); ++k) memcpy(&tape[k], data + 1 + 4 * k, 4);
    Tape t(tape.data(), tape.size());
    std::string js = prop_generate(t, sz);
    if (g_cur_fd < 0) g_cur_fd = open((g_out + "/current_case.json").c_str(), O_CREAT | O_RDWR | O_TRUNC, 0644);
    if (g_cur_fd >= 0) { if (ftruncate(g_cur_fd, 0)) {} if (pwrite(g_cur_fd, js.data(), js.size(), 0) < 0) {} }
    CaseOutcome oc = prop_execute(js);
    ++g_evals;
    if (oc.nontrivial) { g_nt_hashes.insert(fnv(js)); if (g_sample.empty()) g_sample = js; }
    if ((g_evals & 1023) == 0) write_stats();
    if (!oc.ok && oc.known.empty()) {
        mj::Value f = mj::Value::object();
        f.set("property", prop_id()); f.set("clause", oc.clause); f.set("detail", oc.detail);
        try { f.set("case", mj::parse(js)); } catch (...) {}
        mj::write_file(g_out + "/failure.json", mj::dump(f));
        write_stats();
        fprintf(stderr, "ORACLE-FAILURE %s: %s\n", oc.clause.c_str(), oc.detail.c_str());
        __builtin_trap();
    }
    return 0;
}
