#!/usr/bin/env python3
"""dev aid: list the chunks of a .jls file (explicit offsets, like decoder.h)"""
import struct, sys
b = open(sys.argv[1], 'rb').read()
off = 32
names = {1:'SOURCE_DEF',2:'SIGNAL_DEF',0x40:'USER_DATA',0xff:'END'}
tt = ['FSR','VSR','ANNO','UTC']; tc = ['DEF','HEAD','DATA','INDEX','SUMMARY']
print("hdr length", struct.unpack_from('<Q', b, 16)[0], "size", len(b))
while off + 32 <= len(b):
    nxt, prv, tag, rsv, meta, plen, pprev, crc = struct.unpack_from('<QQBBHIII', b, off)
    nm = names.get(tag) or ("%s_%s" % (tt[(tag>>3)&3], tc[tag&7]) if (tag & 0xe0) == 0x20 and (tag&7) < 5 else hex(tag))
    ds = 0 if plen == 0 else ((plen + 4 + 7) & ~7)
    extra = ""
    if plen >= 16 and (tag & 0xe0) == 0x20 and (tag & 7) >= 2:
        ts, cnt, esb = struct.unpack_from('<qIH', b, off + 32)
        extra = " ts=%d cnt=%d esb=%d" % (ts, cnt, esb)
    print("%8d %-14s meta=%04x plen=%-8d pprev=%-8d next=%-8d prev=%-8d%s" % (off, nm, meta, plen, pprev, nxt, prv, extra))
    off += 32 + ds
