#!/bin/sh
# Runs the repository's own test suite with the verification guard OFF (plain cmake build).
# Sequential on purpose: jls_test and repair_test share a temp file name in the build dir.
set -e
B=${VERIF_BASELINE_BUILD:-/repo/_build}
if [ ! -f "$B/build.ninja" ] && [ ! -f "$B/Makefile" ]; then cmake -G Ninja -S /repo -B "$B" >/dev/null; fi
cmake --build "$B" >/dev/null
ctest --test-dir "$B" --timeout 900 --output-on-failure
