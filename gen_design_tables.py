#!/usr/bin/env python3
"""Regenerates the machine-derived tables of DESIGN.md from the committed data files:
  - section 4.1 rows (fixed findings)        <- known_findings.json
  - Appendix D.1 table (seeded changes)      <- seeded/*/meta.json
  - Appendix D.2 (hand-written mutants)      <- mutants/last_selftest.json, mutants/tests_status.json (via gen_appendix_d2.py)
The tables sit between marker lines; everything else in DESIGN.md is hand-written."""
import json, os, glob, subprocess, re
V = os.path.dirname(os.path.abspath(__file__))
path = os.path.join(V, "DESIGN.md")
s = open(path).read()

def replace_table(s, header_prefix, rows, end_blank=True):
    a = s.index(header_prefix)
    # the table = header line + separator line + following lines starting with '|'
    lines = s[a:].split("\n")
    n = 2
    while n < len(lines) and lines[n].startswith("|"):
        n += 1
    old = "\n".join(lines[:n])
    new = "\n".join(lines[:2] + rows)
    return s[:a] + new + s[a + len(old):]

k = json.load(open(os.path.join(V, "known_findings.json")))
rows = []
for f in k["findings"]:
    if f["status"] != "fixed":
        continue
    props = ", ".join(f.get("properties", [f.get("property")]))
    rows.append("| %s | %s | `%s` | %s | `%s` |" % (f["id"], props, f["commit"], f["what"].replace("|", "/"), f.get("replay", "")))
s = replace_table(s, "| finding | property | commit | what failed | replay |", rows)
nfixed = len(rows)

rows = []
for d in sorted(glob.glob(os.path.join(V, "seeded", "*"))):
    m = json.load(open(os.path.join(d, "meta.json")))
    name = os.path.basename(d)
    fc = m.get("files_changed")
    files = ", ".join(fc) if isinstance(fc, list) else str(fc)
    summ = (m.get("summary") or "").replace("\n", " ").replace("|", "/")
    need = (m.get("needs_to_manifest") or "").replace("\n", " ").replace("|", "/")
    if len(summ) > 330: summ = summ[:327] + "..."
    if len(need) > 260: need = need[:257] + "..."
    runs = m.get("checks_run", [])
    prim = [r for r in runs if r["check"] == m["property"]]
    others = [r for r in runs if r["check"] != m["property"]]
    fmt = lambda r: "%s%s %s (%ds)" % (r["check"], " " + r["args"] if r.get("args") else "", "caught" if r["result"] == "CAUGHT" else "missed", r["seconds"])
    rows.append("| `seeded/%s` | %s | %s | %s | %s | %s |" % (name, files, summ, need, "; ".join(fmt(r) for r in prim), "; ".join(fmt(r) for r in others) or "–"))
s = replace_table(s, "| change | files | what it does | needs to manifest |", rows)
open(path, "w").write(s)
print("findings rows: %d, seeded rows: %d" % (nfixed, len(rows)))
if os.path.exists(os.path.join(V, "mutants", "last_selftest.json")):
    subprocess.run([os.path.join(V, "gen_appendix_d2.py")])
