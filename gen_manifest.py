#!/usr/bin/env python3
"""Regenerates MANIFEST.json from harness/propcfg.py (single source of truth)."""
import json, os, sys
sys.path.insert(0, os.path.join(os.path.dirname(os.path.abspath(__file__)), "harness"))
from propcfg import PROPS, MANIFEST_TEXT, NOT_APPLICABLE, HOOK_COMMITS

checks = []
for pid in sorted(PROPS):
    c = PROPS[pid]
    if c.get("unclaimed") or c.get("hidden"):
        continue
    m = MANIFEST_TEXT[pid]
    checks.append(dict(
        property_id=pid,
        quick_cmd="./check %s --tier quick" % pid,
        thorough_cmd="./check %s --tier thorough" % pid,
        evidence_file="/verif/evidence/%s.json" % pid,
        replay_cmd_template="./check %s --replay {path}" % pid,
        engine=m.get("engine", "rapidcheck"),
        level_claimed=dict(category=c.get("level", "exploration"), text=m["level_text"], design_ref=m.get("design_ref", "DESIGN.md section 3 / " + pid)),
        level_note=m["level_note"],
        technique=m["technique"],
    ))
doc = dict(
    version=1,
    setup_cmd="./setup.sh",
    hooks=dict(guard="JLS_VERIF",
               enable="checks compile /repo/src/*.c themselves with -DJLS_VERIF=1 (plus -DJLS_VERIF_MRB_BUFFER_SIZE=<n> for the threaded-writer checks); backend_posix.c is compiled with -include harness/vfs_shim.h (no source change)",
               baseline_off_cmd="./baseline_off.sh",
               source_commits=HOOK_COMMITS, add_only=True),
    engines=[
        dict(name="rapidcheck-tape", path="harness/rc_main.cpp", serves_properties=[c["property_id"] for c in checks],
             kind_free_text="rapidcheck generates a shrinkable tape of choices; per-property decoders turn it into structured cases (programs, fault sets, schedules); oracle inside the property TU; shrunk failure = replay file"),
        dict(name="libfuzzer-tape", path="harness/fuzz_main.cpp", serves_properties=[p for p in sorted(PROPS) if PROPS[p].get("fuzz") and not PROPS[p].get("hidden")],
             kind_free_text="libFuzzer feeds the same decoders from mutated bytes (coverage-guided); ASan; semantic oracle inside the target"),
        dict(name="enumerators", path="harness/props", serves_properties=[p for p in sorted(PROPS) if PROPS[p].get("enumerate") and not PROPS[p].get("hidden")],
             kind_free_text="complete enumeration of small finite sub-spaces (reported separately with their bound)"),
    ],
    checks=checks,
    notes="All checks: ./check <ID> --tier quick|thorough; VERIF_SEED/VERIF_TIER honoured; replays under /verif/replays/<ID>/; regression corpus under /verif/corpus/<ID>/; known findings in /verif/known_findings.json.",
    not_applicable=NOT_APPLICABLE,
)
json.dump(doc, open(os.path.join(os.path.dirname(os.path.abspath(__file__)), "MANIFEST.json"), "w"), indent=1)
print("MANIFEST.json: %d checks, %d not_applicable" % (len(checks), len(NOT_APPLICABLE)))
